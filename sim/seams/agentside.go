package seams

import (
	"context"
	"errors"
	"fmt"
	"sync"
	"time"

	"github.com/ethereum/go-ethereum/accounts/abi/bind"
	"github.com/ethereum/go-ethereum/rpc"
	"github.com/vipnode/vipnode/v2/ethnode"
	"github.com/vipnode/vipnode/v2/jsonrpc2"
	"github.com/vipnode/vipnode/v2/pool"
	"github.com/vipnode/vipnode/v2/pool/store"
	"verif/sim/kernel"
)

// NodeCall is one mutating call the agent made on its Ethereum node.
type NodeCall struct {
	Method string // AddTrustedPeer | RemoveTrustedPeer | ConnectPeer | DisconnectPeer
	Arg    string
	At     time.Duration
	Round  int
	// Failed: the node answered this call with an error (RecordFailed only)
	Failed bool
}

// SimEthNode implements ethnode.EthNode: a recording node with a mutable peer
// list, latency (yield class "eth") and injectable RPC errors.
type SimEthNode struct {
	S        *kernel.Sim
	NodeKind ethnode.NodeKind
	FullNode bool
	EnodeURI string

	mu      sync.Mutex
	PeerSet []ethnode.PeerInfo
	Block   uint64
	Calls   []NodeCall
	Round   int
	// FailNext[method] = number of upcoming calls of that method that fail
	FailNext map[string]int
	// FailAfter[method]: that many calls of the method succeed before FailNext applies
	FailAfter map[string]int
	// RecordFailed: calls that fail are recorded too (marked Failed) - the attempt is what the agent controls
	RecordFailed bool
	inFlight     int
}

var ErrNodeRPC = errors.New("node rpc error (injected)")

func (n *SimEthNode) NodeRPC() *rpc.Client                  { return nil }
func (n *SimEthNode) ContractBackend() bind.ContractBackend { return nil }
func (n *SimEthNode) Kind() ethnode.NodeKind                { return n.NodeKind }
func (n *SimEthNode) UserAgent() ethnode.UserAgent {
	return ethnode.UserAgent{Version: "Sim/1", Network: 1, IsFullNode: n.FullNode, Kind: n.NodeKind}
}

func (n *SimEthNode) fail(method string) bool {
	n.mu.Lock()
	defer n.mu.Unlock()
	if n.FailNext[method] > 0 {
		if n.FailAfter[method] > 0 {
			n.FailAfter[method]--
			return false
		}
		n.FailNext[method]--
		return true
	}
	return false
}

func (n *SimEthNode) Enode(ctx context.Context) (string, error) {
	n.enter()
	n.S.Yield("eth", "Enode")
	n.leave()
	if n.fail("Enode") {
		n.S.Fault("eth_rpc_error")
		return "", ErrNodeRPC
	}
	return n.EnodeURI, nil
}

func (n *SimEthNode) record(method, arg string) error {
	n.enter()
	n.S.Yield("eth", method+" "+shortArg(arg))
	n.leave()
	if n.fail(method) {
		n.S.Fault("eth_rpc_error")
		if n.RecordFailed {
			n.mu.Lock()
			n.Calls = append(n.Calls, NodeCall{Method: method, Arg: arg, At: n.S.Now(), Round: n.Round, Failed: true})
			n.mu.Unlock()
		}
		return ErrNodeRPC
	}
	n.mu.Lock()
	n.Calls = append(n.Calls, NodeCall{Method: method, Arg: arg, At: n.S.Now(), Round: n.Round})
	n.mu.Unlock()
	return nil
}

func shortArg(x string) string {
	if len(x) > 24 {
		return x[:10] + ".." + x[len(x)-8:]
	}
	return x
}

func (n *SimEthNode) AddTrustedPeer(ctx context.Context, nodeID string) error {
	return n.record("AddTrustedPeer", nodeID)
}
func (n *SimEthNode) RemoveTrustedPeer(ctx context.Context, nodeID string) error {
	return n.record("RemoveTrustedPeer", nodeID)
}
func (n *SimEthNode) ConnectPeer(ctx context.Context, nodeURI string) error {
	return n.record("ConnectPeer", nodeURI)
}
func (n *SimEthNode) DisconnectPeer(ctx context.Context, nodeID string) error {
	return n.record("DisconnectPeer", nodeID)
}

func (n *SimEthNode) Peers(ctx context.Context) ([]ethnode.PeerInfo, error) {
	n.enter()
	n.S.Yield("eth", "Peers")
	n.leave()
	if n.fail("Peers") {
		n.S.Fault("eth_rpc_error")
		return nil, ErrNodeRPC
	}
	n.mu.Lock()
	defer n.mu.Unlock()
	return append([]ethnode.PeerInfo(nil), n.PeerSet...), nil
}

func (n *SimEthNode) BlockNumber(ctx context.Context) (uint64, error) {
	n.enter()
	n.S.Yield("eth", "BlockNumber")
	n.leave()
	if n.fail("BlockNumber") {
		n.S.Fault("eth_rpc_error")
		return 0, ErrNodeRPC
	}
	n.mu.Lock()
	defer n.mu.Unlock()
	return n.Block, nil
}

// CallsSince returns the mutating calls recorded from index i on.
func (n *SimEthNode) CallsSince(i int) []NodeCall {
	n.mu.Lock()
	defer n.mu.Unlock()
	return append([]NodeCall(nil), n.Calls[i:]...)
}

func (n *SimEthNode) NumCalls() int {
	n.mu.Lock()
	defer n.mu.Unlock()
	return len(n.Calls)
}

// PoolCall is one call the agent made on the pool.
type PoolCall struct {
	Method string
	At     time.Duration
	Peer   pool.PeerRequest
	Update pool.UpdateRequest
	Err    error
}

// SimPool implements pool.Pool: a scripted pool for agent-only scenarios.
type SimPool struct {
	S  *kernel.Sim
	mu sync.Mutex
	// NextUpdate is the reply to the next Update call(s)
	NextUpdate pool.UpdateResponse
	// NextPeers is the reply to the next Peer call
	NextPeers []string // enode URIs
	Calls     []PoolCall
	// Fail[method] = error to return for the next N calls
	FailNext map[string]int
	FailWith map[string]error
	// SilentNext[method] = number of upcoming calls that are never answered: the call returns only when its
	// context ends (a reply lost on the way, a pool that is stuck), as a remote call without reply does
	SilentNext map[string]int
	InFlight   int
	ConnectN   int
	UpdateN    int
	// RefuseOverlap: as the real pool does, refuse a keep-alive of the node while another one is being processed
	RefuseOverlap   bool
	updatesInFlight int
	Refused         int
	// Hold[method]: the next call of the method stays inside the pool until the channel is closed (a slow pool)
	Hold map[string]chan struct{}
}

// RPCError makes an error with a JSON-RPC code, as the real transport delivers pool errors.
func RPCError(code int, msg string) error { return &jsonrpc2.ErrResponse{Code: code, Message: msg} }

func (p *SimPool) enter(method string) (error, func()) {
	p.mu.Lock()
	p.InFlight++
	p.mu.Unlock()
	p.S.Yield("pool", method)
	done := func() {
		p.mu.Lock()
		p.InFlight--
		p.mu.Unlock()
	}
	p.mu.Lock()
	defer p.mu.Unlock()
	if p.FailNext[method] > 0 {
		p.FailNext[method]--
		err := p.FailWith[method]
		if err == nil {
			err = fmt.Errorf("pool %s failed (injected)", method)
		}
		p.S.Fault("pool_rpc_error")
		return err, done
	}
	return nil, done
}

func (p *SimPool) rec(c PoolCall) {
	c.At = p.S.Now()
	p.mu.Lock()
	p.Calls = append(p.Calls, c)
	p.mu.Unlock()
}

func (p *SimPool) Host(ctx context.Context, req pool.HostRequest) (*pool.HostResponse, error) {
	return &pool.HostResponse{PoolVersion: "sim"}, nil
}
func (p *SimPool) Client(ctx context.Context, req pool.ClientRequest) (*pool.ClientResponse, error) {
	return &pool.ClientResponse{PoolVersion: "sim"}, nil
}

func (p *SimPool) Connect(ctx context.Context, req pool.ConnectRequest) (*pool.ConnectResponse, error) {
	err, done := p.enter("Connect")
	defer done()
	p.rec(PoolCall{Method: "Connect", Err: err})
	if err != nil {
		return nil, err
	}
	p.mu.Lock()
	p.ConnectN++
	p.mu.Unlock()
	return &pool.ConnectResponse{PoolVersion: "sim"}, nil
}

func (p *SimPool) silent(method string) bool {
	p.mu.Lock()
	defer p.mu.Unlock()
	if p.SilentNext[method] > 0 {
		p.SilentNext[method]--
		return true
	}
	return false
}

func (p *SimPool) Update(ctx context.Context, req pool.UpdateRequest) (*pool.UpdateResponse, error) {
	if p.silent("Update") {
		p.S.Fault("pool_never_answers")
		p.rec(PoolCall{Method: "Update", Update: req, Err: context.DeadlineExceeded})
		<-ctx.Done()
		return nil, ctx.Err()
	}
	p.mu.Lock()
	if p.RefuseOverlap && p.updatesInFlight > 0 {
		p.Refused++
		p.mu.Unlock()
		err := RPCError(-32603, "update already in progress for this node")
		p.rec(PoolCall{Method: "Update", Update: req, Err: err})
		return nil, err
	}
	p.updatesInFlight++
	hold := p.Hold["Update"]
	delete(p.Hold, "Update")
	p.mu.Unlock()
	defer func() {
		p.mu.Lock()
		p.updatesInFlight--
		p.mu.Unlock()
	}()
	if hold != nil {
		p.S.Fault("pool_slow_to_answer")
		// (a caller whose time is up does not get an answer, however ready it is: a select among two ready cases
		// would be a coin the simulator does not own)
		expired := ctx.Err() != nil
		if !expired {
			select {
			case <-hold:
				expired = ctx.Err() != nil
			case <-ctx.Done():
				expired = true
			}
		}
		if expired {
			p.rec(PoolCall{Method: "Update", Update: req, Err: ctx.Err()})
			return nil, ctx.Err()
		}
	}
	err, done := p.enter("Update")
	defer done()
	p.rec(PoolCall{Method: "Update", Update: req, Err: err})
	if err != nil {
		return nil, err
	}
	p.mu.Lock()
	defer p.mu.Unlock()
	p.UpdateN++
	r := p.NextUpdate
	r.ActivePeers = append([]string(nil), r.ActivePeers...)
	r.InvalidPeers = append([]string(nil), r.InvalidPeers...)
	return &r, nil
}

func (p *SimPool) Peer(ctx context.Context, req pool.PeerRequest) (*pool.PeerResponse, error) {
	err, done := p.enter("Peer")
	defer done()
	p.rec(PoolCall{Method: "Peer", Peer: req, Err: err})
	if err != nil {
		return nil, err
	}
	p.mu.Lock()
	defer p.mu.Unlock()
	resp := &pool.PeerResponse{}
	for _, u := range p.NextPeers {
		resp.Peers = append(resp.Peers, nodeFromURI(u))
	}
	return resp, nil
}

func (p *SimPool) Withdraw(ctx context.Context) error { return nil }

// CountSince counts calls of a method recorded from index i on.
func (p *SimPool) CallsSince(i int) []PoolCall {
	p.mu.Lock()
	defer p.mu.Unlock()
	return append([]PoolCall(nil), p.Calls[i:]...)
}

func (p *SimPool) NumCalls() int {
	p.mu.Lock()
	defer p.mu.Unlock()
	return len(p.Calls)
}

func (p *SimPool) Busy() bool {
	p.mu.Lock()
	defer p.mu.Unlock()
	return p.InFlight > 0
}

func nodeFromURI(u string) store.Node {
	n := store.Node{URI: u, IsHost: true}
	if pu, err := ethnode.ParseNodeURI(u); err == nil {
		n.ID = store.NodeID(pu.ID())
	}
	return n
}

func (n *SimEthNode) Lock()   { n.mu.Lock() }
func (n *SimEthNode) Unlock() { n.mu.Unlock() }
func (p *SimPool) Lock()      { p.mu.Lock() }
func (p *SimPool) Unlock()    { p.mu.Unlock() }

// Busy reports whether a node call is in flight (parked at its yield point).
func (n *SimEthNode) Busy() bool {
	n.mu.Lock()
	defer n.mu.Unlock()
	return n.inFlight > 0
}

func (n *SimEthNode) enter() { n.mu.Lock(); n.inFlight++; n.mu.Unlock() }
func (n *SimEthNode) leave() { n.mu.Lock(); n.inFlight--; n.mu.Unlock() }
