// Package seams holds the simulated implementations of the interfaces the
// repository already has: jsonrpc2.Codec, net.Conn, store.Store (decorator),
// ethnode.EthNode, pool.Pool, store.BalanceStore, payment.SettleHandler.
package seams

import (
	"bytes"
	"encoding/json"
	"errors"
	"fmt"
	"io"
	"sync"
	"time"

	"github.com/vipnode/vipnode/v2/jsonrpc2"
	"verif/sim/kernel"
)

// ErrClosed is returned by writes on a closed simulated connection.
var ErrClosed = errors.New("simconn: connection closed")

// Codec is one end of a simulated message-level connection.  It implements
// jsonrpc2.Codec.  Each direction is a FIFO whose head the scheduler
// delivers; a connection never loses, duplicates or reorders messages (it
// models TCP/WebSocket), it can only be slow, stalled or reset.
type Codec struct {
	sim    *kernel.Sim
	name   string // this end
	addr   string // what RemoteAddr() reports (address of the peer)
	peer   *Codec
	in     chan []byte
	closed chan struct{}
	once   sync.Once
	out    *dir

	// PostWrite, when the yield class "postwrite" is enabled, parks the
	// writer after the message has been queued: this is what lets a reply be
	// delivered before its caller starts waiting.
	mu       sync.Mutex
	Written  int
	Received int
	// OnWrite observes every message written on this end (after marshalling).
	OnWrite func(raw []byte)
	// OnRead observes every message handed to ReadMessage's caller.
	OnRead func(raw []byte)
	// blockRequests: see SetBlockRequests
	blockRequests bool
}

type dir struct {
	sim     *kernel.Sim
	id      string
	mu      sync.Mutex
	q       [][]byte
	eof     bool // an in-band close marker sits after q
	dead    bool
	to      *Codec
	Latency time.Duration
	// Burst > 0: a delivery may hand over up to Burst further queued messages at once
	Burst int
}

func (d *dir) ID() string { return d.id }
func (d *dir) Pending() int {
	d.mu.Lock()
	defer d.mu.Unlock()
	if d.dead {
		return 0
	}
	n := len(d.q)
	if d.eof {
		n++
	}
	return n
}

func (d *dir) DeliverNext() string {
	d.mu.Lock()
	if d.dead {
		d.mu.Unlock()
		return "(dead)"
	}
	if len(d.q) == 0 {
		if d.eof {
			d.eof = false
			d.dead = true
			d.mu.Unlock()
			d.to.closeLocal()
			return "EOF"
		}
		d.mu.Unlock()
		return "(empty)"
	}
	b := d.q[0]
	d.q = d.q[1:]
	lat := d.Latency
	d.mu.Unlock()
	if lat > 0 {
		time.Sleep(lat)
	}
	if d.to.IsClosed() {
		// the reader is gone: the message is dropped on arrival (order-insensitive
		// with respect to a Close that ran in the same macro-step as the write)
		return digest(b) + " (dropped: reader closed)"
	}
	select {
	case d.to.in <- b:
	default:
		panic("simcodec: inbox overflow on " + d.id)
	}
	out := digest(b)
	// a burst: the messages queued right behind arrive together with this one (one segment on the wire carries
	// several frames), the reader finds them without anything else happening in between
	// (at most one reply per burst: every reply wakes a goroutine that goes on to write, and in which order two of
	// them write would be up to the Go scheduler; requests start handlers, which park on entry)
	d.mu.Lock()
	burst, replies := 0, 0
	if !isRequest(b) {
		replies++
	}
	for burst < d.Burst && burst < len(d.q) {
		if !isRequest(d.q[burst]) {
			if replies == 1 {
				break
			}
			replies++
		}
		burst++
	}
	d.mu.Unlock()
	if burst > 0 {
		if k := d.sim.Choose("burst", burst+1); k > 0 {
			d.mu.Lock()
			more := d.q[:k]
			d.q = d.q[k:]
			d.mu.Unlock()
			for _, m := range more {
				select {
				case d.to.in <- m:
				default:
					panic("simcodec: inbox overflow on " + d.id)
				}
				out += " + " + digest(m)
			}
			d.sim.Fault("messages_arrive_in_one_burst")
		}
	}
	return out
}

func isRequest(b []byte) bool {
	var m struct {
		Method string `json:"method"`
	}
	return json.Unmarshal(b, &m) == nil && m.Method != ""
}

func digest(b []byte) string {
	var m struct {
		ID     json.RawMessage `json:"id"`
		Method string          `json:"method"`
		Error  *struct {
			Code int `json:"code"`
		} `json:"error"`
	}
	if json.Unmarshal(b, &m) != nil {
		if len(b) > 24 {
			b = b[:24]
		}
		return fmt.Sprintf("raw %q", b)
	}
	switch {
	case m.Method != "":
		return fmt.Sprintf("req id=%s %s", m.ID, m.Method)
	case m.Error != nil:
		return fmt.Sprintf("err id=%s code=%d", m.ID, m.Error.Code)
	default:
		return fmt.Sprintf("res id=%s", m.ID)
	}
}

// Pipe creates a connected pair.  a.RemoteAddr() reports addrOfB and vice versa.
func Pipe(sim *kernel.Sim, nameA, nameB, addrOfA, addrOfB string) (a, b *Codec) {
	a = &Codec{sim: sim, name: nameA, addr: addrOfB, in: make(chan []byte, 4096), closed: make(chan struct{})}
	b = &Codec{sim: sim, name: nameB, addr: addrOfA, in: make(chan []byte, 4096), closed: make(chan struct{})}
	a.peer, b.peer = b, a
	a.out = &dir{sim: sim, id: nameA + ">" + nameB, to: b}
	b.out = &dir{sim: sim, id: nameB + ">" + nameA, to: a}
	sim.AddLink(a.out)
	sim.AddLink(b.out)
	sim.OnTeardown(func() { a.Reset() })
	return a, b
}

func (c *Codec) Name() string { return c.name }

func (c *Codec) SetLatency(d time.Duration) { c.out.mu.Lock(); c.out.Latency = d; c.out.mu.Unlock() }

func (c *Codec) RemoteAddr() string { return c.addr }

// SetBurst lets up to n further messages written on this end arrive together with the one that is delivered.
func (c *Codec) SetBurst(n int) { c.out.mu.Lock(); c.out.Burst = n; c.out.mu.Unlock() }

func (c *Codec) closeLocal() { c.once.Do(func() { close(c.closed) }) }

func (c *Codec) IsClosed() bool {
	select {
	case <-c.closed:
		return true
	default:
		return false
	}
}

// Close closes this end: its reads end at once, what the peer has in flight
// towards it is dropped on arrival, and the peer sees EOF after the messages
// already in flight towards it.
func (c *Codec) Close() error {
	if c.IsClosed() {
		return nil
	}
	c.closeLocal()
	c.out.mu.Lock()
	if !c.out.dead {
		c.out.eof = true
	}
	c.out.mu.Unlock()
	return nil
}

// Reset is a connection reset: both ends see the connection closed now and
// everything in flight is lost.
func (c *Codec) Reset() {
	for _, e := range []*Codec{c, c.peer} {
		e.closeLocal()
		e.out.mu.Lock()
		e.out.q, e.out.eof, e.out.dead = nil, false, true
		e.out.mu.Unlock()
	}
}

func (c *Codec) WriteMessage(msg *jsonrpc2.Message) error {
	b, err := json.Marshal(msg)
	if err != nil {
		return err
	}
	return c.WriteRaw(b)
}

// SetBlockRequests: from now on requests (not replies) written on this end block as if the peer had stopped reading.
func (c *Codec) SetBlockRequests(v bool) {
	c.mu.Lock()
	c.blockRequests = v
	c.mu.Unlock()
}

func (c *Codec) blocksRequests() bool {
	c.mu.Lock()
	defer c.mu.Unlock()
	return c.blockRequests
}

// WriteRaw queues raw bytes as one message (hostile peers use it directly).
func (c *Codec) WriteRaw(b []byte) error {
	if c.blocksRequests() && bytes.Contains(b, []byte(`"method"`)) {
		// the peer has stopped reading and its buffers are full: the write blocks until the connection ends
		c.sim.Fault("write_blocks_peer_not_reading")
		<-c.closed
		return ErrClosed
	}
	// (off by default; scenarios in which several goroutines of the code under test can write to one connection
	// within a macro-step turn it on so that the scheduler, not the Go runtime, orders the writes)
	c.sim.Yield("prewrite", c.name)
	if c.IsClosed() {
		return ErrClosed
	}
	c.out.mu.Lock()
	if c.out.dead || c.out.eof {
		c.out.mu.Unlock()
		return ErrClosed
	}
	c.out.q = append(c.out.q, b)
	c.out.mu.Unlock()
	c.mu.Lock()
	c.Written++
	ow := c.OnWrite
	c.mu.Unlock()
	if ow != nil {
		ow(b)
	}
	c.sim.Yield("postwrite", c.name+" "+digest(b))
	return nil
}

func (c *Codec) ReadMessage() (*jsonrpc2.Message, error) {
	select {
	case b := <-c.in:
		return c.decode(b)
	default:
	}
	select {
	case b := <-c.in:
		return c.decode(b)
	case <-c.closed:
		// drain what was delivered before the close
		select {
		case b := <-c.in:
			return c.decode(b)
		default:
		}
		return nil, io.EOF
	}
}

func (c *Codec) decode(b []byte) (*jsonrpc2.Message, error) {
	c.mu.Lock()
	c.Received++
	or := c.OnRead
	c.mu.Unlock()
	if or != nil {
		or(b)
	}
	var msg jsonrpc2.Message
	if err := json.Unmarshal(b, &msg); err != nil {
		return &msg, err
	}
	return &msg, nil
}

// InFlight is the number of messages queued from this end and not yet delivered.
func (c *Codec) InFlight() int { return c.out.Pending() }
