package seams

import (
	"errors"
	"fmt"
	"math/big"
	"os"
	"path/filepath"
	"sort"
	"strings"
	"sync"

	"github.com/dgraph-io/badger/v2"
	"github.com/vipnode/vipnode/v2/pool/store"
	badgerstore "github.com/vipnode/vipnode/v2/pool/store/badger"
	"github.com/vipnode/vipnode/v2/pool/store/memory"
	"verif/sim/kernel"
)

// ScratchDir returns a fresh directory under the worker's scratch root
// (/dev/shm when available); it is removed at teardown.
func ScratchDir(s *kernel.Sim, name string) string {
	root := os.Getenv("VERIF_SCRATCH")
	if root == "" {
		root = "/dev/shm"
		if st, err := os.Stat(root); err != nil || !st.IsDir() {
			root = os.TempDir()
		}
	}
	dir, err := os.MkdirTemp(root, "sim-"+name+"-")
	if err != nil {
		panic(err)
	}
	s.OnTeardown(func() { os.RemoveAll(dir) })
	scratchMu.Lock()
	scratchDirs = append(scratchDirs, dir)
	if len(scratchDirs) > 64 {
		scratchDirs = scratchDirs[len(scratchDirs)-64:]
	}
	scratchMu.Unlock()
	return dir
}

var (
	scratchMu   sync.Mutex
	scratchDirs []string
)

// RecentScratchDirs are the scratch directories this process created last (the worker's watchdog adds up what they hold).
func RecentScratchDirs() []string {
	scratchMu.Lock()
	defer scratchMu.Unlock()
	return append([]string(nil), scratchDirs...)
}

// BadgerOptions are the production options (badger.DefaultOptions(dir), as
// pool.go uses) with the logger silenced and — as a per-run tuning knob — a
// smaller memtable, which changes no semantics.
func BadgerOptions(dir string, tableMB int) badger.Options {
	o := badger.DefaultOptions(dir)
	o.Logger = nil
	if tableMB > 0 {
		o.MaxTableSize = int64(tableMB) << 20
		o.ValueLogFileSize = 16 << 20
		o.NumMemtables = 2
		o.NumLevelZeroTables = 2
		o.NumLevelZeroTablesStall = 4
	}
	return o
}

// OpenStore opens one of the two real drivers.
func OpenStore(s *kernel.Sim, driver, dir string, tableMB int) (store.Store, error) {
	switch driver {
	case "memory":
		return memory.New(), nil
	case "badger":
		return badgerstore.Open(BadgerOptions(dir, tableMB))
	}
	return nil, fmt.Errorf("unknown driver %q", driver)
}

// CloseStore closes a driver after letting every goroutine it started come to
// rest: badger's iterators leave value-prefetch goroutines behind which block
// for ever on a file lock if the database is closed before they ran (and a
// goroutine blocked on a mutex would keep the bubble from ending).
func CloseStore(s *kernel.Sim, st store.Store) error {
	s.Settle()
	return st.Close()
}

// CopyDir copies a database directory (crash image).
func CopyDir(src, dst string) error {
	ents, err := os.ReadDir(src)
	if err != nil {
		return err
	}
	if err := os.MkdirAll(dst, 0755); err != nil {
		return err
	}
	for _, e := range ents {
		if e.IsDir() || e.Name() == "LOCK" {
			continue
		}
		b, err := os.ReadFile(filepath.Join(src, e.Name()))
		if err != nil {
			return err
		}
		if err := os.WriteFile(filepath.Join(dst, e.Name()), b, 0644); err != nil {
			return err
		}
	}
	return nil
}

// OpRecord is one store operation seen by the decorator.
type OpRecord struct {
	Op   string
	Args string
	Err  error
}

// YieldStore decorates a real store: it parks the caller before and after
// every operation (yield class "store"; never inside — the drivers hold their
// locks only within a call), makes map-order-dependent results canonical,
// counts operations, and can inject nothing: every value it returns is a real
// output of the real driver.
type YieldStore struct {
	Inner  store.Store
	Sim    *kernel.Sim
	Driver string

	mu  sync.Mutex
	Ops map[string]int
	// Mutations counts calls of state-changing operations (refused-request oracles).
	Mutations int
	// FailPermille[op] > 0 injects a storage error (the operation is not executed) with that
	// probability: what a full disk or an I/O error looks like to the pool.  FailBudget bounds the
	// number of injected errors per run.
	FailPermille map[string]int
	FailBudget   int
	Failed       int
	// FailDisarmed suspends injection (a scenario that only faults one kind of request).
	FailDisarmed bool
	// Streak: after the first injected error every store call fails until the budget is used up (an outage)
	Streak bool
	// Trace, when set, receives every completed operation.
	Trace func(OpRecord)
	// After is called after every completed operation, before the post-yield.
	After func(op string)
}

func NewYieldStore(s *kernel.Sim, inner store.Store, driver string) *YieldStore {
	return &YieldStore{Inner: inner, Sim: s, Driver: driver, Ops: map[string]int{}}
}

func short(x string) string {
	if len(x) > 10 {
		return x[:4] + ".." + x[len(x)-4:]
	}
	return x
}

// ErrInjected is the injected storage error.
var ErrInjected = errors.New("store: injected I/O error")

// SetDisarmed suspends or resumes injection.
func (y *YieldStore) SetDisarmed(v bool) {
	y.mu.Lock()
	y.FailDisarmed = v
	y.mu.Unlock()
}

// inject decides whether this operation fails with an injected storage error.
func (y *YieldStore) inject(op string) bool {
	y.mu.Lock()
	rate := y.FailPermille[op]
	room := y.Failed < y.FailBudget && !y.FailDisarmed
	streak := y.Streak && y.Failed > 0 && room
	y.mu.Unlock()
	if !streak {
		if rate <= 0 || !room {
			return false
		}
		if y.Sim.TaskChoose("store", "storefail."+op, 1000) < 1000-rate {
			return false
		}
	}
	y.mu.Lock()
	y.Failed++
	y.mu.Unlock()
	y.Sim.Fault("store_error_" + op)
	return true
}

// pre does the wrapper's bookkeeping, decides whether the operation fails with an injected storage error, and parks.
// Everything of the harness that takes a lock happens before the yield point: between being released and entering the
// driver the task must not synchronise with anybody, or the race detector (race build) would take two operations that the
// driver itself leaves unordered for ordered.
func (y *YieldStore) pre(op, args string, mutating bool) (injected bool) {
	y.mu.Lock()
	y.Ops[op]++
	if mutating {
		y.Mutations++
	}
	y.mu.Unlock()
	injected = y.inject(op)
	y.Sim.Yield("store", op+"("+args+")")
	return injected
}

func (y *YieldStore) post(op, args string, err error) {
	y.mu.Lock()
	tr, af := y.Trace, y.After
	y.mu.Unlock()
	if tr != nil {
		tr(OpRecord{op, args, err})
	}
	if af != nil {
		af(op)
	}
	y.Sim.Yield("storeret", op+"("+args+")")
}

func (y *YieldStore) MutationCount() int {
	y.mu.Lock()
	defer y.mu.Unlock()
	return y.Mutations
}

func (y *YieldStore) CheckAndSaveNonce(ID string, nonce int64) error {
	a := fmt.Sprintf("%s,%d", short(ID), nonce)
	if y.pre("CheckAndSaveNonce", a, false) {
		y.post("CheckAndSaveNonce", a, ErrInjected)
		return ErrInjected
	}
	err := y.Inner.CheckAndSaveNonce(ID, nonce)
	y.post("CheckAndSaveNonce", a, err)
	return err
}

func (y *YieldStore) GetNode(id store.NodeID) (*store.Node, error) {
	a := short(string(id))
	if y.pre("GetNode", a, false) {
		y.post("GetNode", a, ErrInjected)
		return nil, ErrInjected
	}
	n, err := y.Inner.GetNode(id)
	y.post("GetNode", a, err)
	return n, err
}

func (y *YieldStore) SetNode(n store.Node) error {
	a := short(string(n.ID))
	if y.pre("SetNode", a, true) {
		y.post("SetNode", a, ErrInjected)
		return ErrInjected
	}
	err := y.Inner.SetNode(n)
	y.post("SetNode", a, err)
	return err
}

// ActiveHosts: with a limit below the supply the memory driver returns the
// first `limit` entries of Go's randomly rotated map iteration and the badger
// driver a math/rand shuffle.  Neither die can be owned directly, so for the
// memory driver the real (read-only) call is repeated, the distinct real
// results are put in canonical order and the run's PRNG picks one; for badger
// the global math/rand source is seeded per run (kernel side).
func (y *YieldStore) ActiveHosts(kind string, limit int) ([]store.Node, error) {
	a := fmt.Sprintf("%s,%d", kind, limit)
	y.pre("ActiveHosts", a, false)
	r, err := y.Inner.ActiveHosts(kind, limit)
	if err == nil && y.Driver == "memory" && limit > 0 && len(r) == limit && len(r) > 0 {
		r = y.sampleActiveHosts(kind, limit, r)
	} else if err == nil && y.Driver == "memory" {
		sort.Slice(r, func(i, j int) bool { return r[i].ID < r[j].ID })
	}
	y.post("ActiveHosts", a, err)
	return r, err
}

func hostsKey(r []store.Node) string {
	var b strings.Builder
	for _, n := range r {
		b.WriteString(string(n.ID))
		b.WriteByte(',')
	}
	return b.String()
}

func (y *YieldStore) sampleActiveHosts(kind string, limit int, first []store.Node) []store.Node {
	all, err := y.Inner.ActiveHosts(kind, 0)
	if err != nil || len(all) <= limit {
		sort.Slice(first, func(i, j int) bool { return first[i].ID < first[j].ID })
		return first
	}
	outcomes := map[string][]store.Node{hostsKey(first): first}
	for i := 0; i < 1536; i++ {
		r, err := y.Inner.ActiveHosts(kind, limit)
		if err != nil {
			break
		}
		outcomes[hostsKey(r)] = r
	}
	keys := make([]string, 0, len(outcomes))
	for k := range outcomes {
		keys = append(keys, k)
	}
	sort.Strings(keys)
	y.Sim.Probe("store.activehosts_sampled")
	return outcomes[keys[y.Sim.TaskChoose("store", "activehosts", len(keys))]]
}

func (y *YieldStore) NodePeers(id store.NodeID) ([]store.Node, error) {
	a := short(string(id))
	if y.pre("NodePeers", a, false) {
		y.post("NodePeers", a, ErrInjected)
		return nil, ErrInjected
	}
	r, err := y.Inner.NodePeers(id)
	sort.Slice(r, func(i, j int) bool { return r[i].ID < r[j].ID })
	y.post("NodePeers", a, err)
	return r, err
}

func (y *YieldStore) UpdateNodePeers(id store.NodeID, peers []string, block uint64) ([]store.NodeID, error) {
	a := fmt.Sprintf("%s,%d peers", short(string(id)), len(peers))
	if y.pre("UpdateNodePeers", a, true) {
		y.post("UpdateNodePeers", a, ErrInjected)
		return nil, ErrInjected
	}
	r, err := y.Inner.UpdateNodePeers(id, peers, block)
	sort.Slice(r, func(i, j int) bool { return r[i] < r[j] })
	y.post("UpdateNodePeers", a, err)
	return r, err
}

func (y *YieldStore) GetNodeBalance(id store.NodeID) (store.Balance, error) {
	a := short(string(id))
	if y.pre("GetNodeBalance", a, false) {
		y.post("GetNodeBalance", a, ErrInjected)
		return store.Balance{}, ErrInjected
	}
	b, err := y.Inner.GetNodeBalance(id)
	y.post("GetNodeBalance", a, err)
	return b, err
}

func (y *YieldStore) AddNodeBalance(id store.NodeID, credit *big.Int) error {
	a := fmt.Sprintf("%s,%s", short(string(id)), credit)
	if y.pre("AddNodeBalance", a, true) {
		y.post("AddNodeBalance", a, ErrInjected)
		return ErrInjected
	}
	err := y.Inner.AddNodeBalance(id, credit)
	y.post("AddNodeBalance", a, err)
	return err
}

func (y *YieldStore) GetAccountBalance(acc store.Account) (store.Balance, error) {
	a := short(string(acc))
	if y.pre("GetAccountBalance", a, false) {
		y.post("GetAccountBalance", a, ErrInjected)
		return store.Balance{}, ErrInjected
	}
	b, err := y.Inner.GetAccountBalance(acc)
	y.post("GetAccountBalance", a, err)
	return b, err
}

func (y *YieldStore) AddAccountBalance(acc store.Account, credit *big.Int) error {
	a := fmt.Sprintf("%s,%s", short(string(acc)), credit)
	if y.pre("AddAccountBalance", a, true) {
		y.post("AddAccountBalance", a, ErrInjected)
		return ErrInjected
	}
	err := y.Inner.AddAccountBalance(acc, credit)
	y.post("AddAccountBalance", a, err)
	return err
}

func (y *YieldStore) AddAccountNode(acc store.Account, id store.NodeID) error {
	a := short(string(acc)) + "," + short(string(id))
	if y.pre("AddAccountNode", a, true) {
		y.post("AddAccountNode", a, ErrInjected)
		return ErrInjected
	}
	err := y.Inner.AddAccountNode(acc, id)
	y.post("AddAccountNode", a, err)
	return err
}

func (y *YieldStore) IsAccountNode(acc store.Account, id store.NodeID) error {
	a := short(string(acc)) + "," + short(string(id))
	y.pre("IsAccountNode", a, false)
	err := y.Inner.IsAccountNode(acc, id)
	y.post("IsAccountNode", a, err)
	return err
}

func (y *YieldStore) GetAccountNodes(acc store.Account) ([]store.NodeID, error) {
	a := short(string(acc))
	y.pre("GetAccountNodes", a, false)
	r, err := y.Inner.GetAccountNodes(acc)
	sort.Slice(r, func(i, j int) bool { return r[i] < r[j] })
	y.post("GetAccountNodes", a, err)
	return r, err
}

func (y *YieldStore) Stats() (*store.Stats, error) {
	// no yield: status.PoolStatus calls the store under its own mutex
	return y.Inner.Stats()
}

func (y *YieldStore) Close() error { return y.Inner.Close() }
