//go:build !verif

package seams

import "verif/sim/kernel"

const HooksBuilt = false

func InstallTxnHook(s *kernel.Sim) {}

func InstallServeHook(s *kernel.Sim, f func(handler, pool, storeDriver interface{}, bind string) error) {
}
