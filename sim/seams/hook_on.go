//go:build verif

package seams

import (
	"github.com/vipnode/vipnode/v2/simhook"
	"strings"
	"verif/sim/kernel"
)

// HooksBuilt reports whether /repo was compiled with the verif tag.
const HooksBuilt = true

// InstallTxnHook routes the in-transaction yield points of the badger driver
// (hook H1) to the scheduler, yield class "txn".  One run at a time per process.
func InstallTxnHook(s *kernel.Sim) {
	simhook.YieldFn = func(point string) {
		if strings.HasPrefix(point, "atomic:") {
			// inserted by cmd/instrument before an atomic operation of the repository
			if s.YieldEnabled("atomic") {
				s.Probe("h3.parked_before_atomic_operation")
			}
			s.Yield("atomic", point)
			return
		}
		s.Yield("txn", point)
	}
	s.OnTeardown(func() { simhook.YieldFn = nil })
}

// InstallServeHook routes hook H2 (pool.go, before ListenAndServe).
func InstallServeHook(s *kernel.Sim, f func(handler, pool, storeDriver interface{}, bind string) error) {
	simhook.ServeFn = f
	s.OnTeardown(func() { simhook.ServeFn = nil })
}
