package seams

import (
	"context"
	"errors"
	"fmt"
	"io"
	"net"
	"os"
	"sync"
	"time"

	"verif/sim/kernel"
)

// Conn is one end of a simulated byte-stream connection (net.Conn).  Bytes
// written are queued in flight; the scheduler hands them to the reader in
// chunks of seeded sizes: one byte at a time, split inside a message, or
// several messages coalesced into one read.  The stream is reliable and
// ordered (TCP); it can be slow, stalled or reset.
type Conn struct {
	sim    *kernel.Sim
	name   string
	local  simAddr
	remote simAddr
	peer   *Conn

	mu      sync.Mutex
	avail   []byte        // delivered, not yet read
	wake    chan struct{} // closed and replaced whenever avail / state changes
	rdead   time.Time     // read deadline (zero = none)
	rclosed bool          // no more data will arrive (peer closed / reset)
	closed  bool          // this end was closed
	out     *byteDir
	// Sizes the chunker chooses from (0 = everything in flight)
	ReadBytes, WrittenBytes int
	// Writes: instant (simulated clock) and size of every Write on this end
	Writes []WriteEvent
}

type simAddr string

func (a simAddr) Network() string { return "tcp" }
func (a simAddr) String() string  { return string(a) }

type byteDir struct {
	sim    *kernel.Sim
	id     string
	mu     sync.Mutex
	buf    []byte
	eof    bool
	dead   bool
	to     *Conn
	Sizes  []int
	Chunks int
}

func (d *byteDir) ID() string { return d.id }
func (d *byteDir) Pending() int {
	d.mu.Lock()
	defer d.mu.Unlock()
	if d.dead {
		return 0
	}
	n := len(d.buf)
	if n == 0 && d.eof {
		return 1
	}
	return n
}

func (d *byteDir) DeliverNext() string {
	d.mu.Lock()
	if d.dead {
		d.mu.Unlock()
		return "(dead)"
	}
	if len(d.buf) == 0 {
		if d.eof {
			d.eof, d.dead = false, true
			d.mu.Unlock()
			d.to.mu.Lock()
			d.to.rclosed = true
			d.to.signal()
			d.to.mu.Unlock()
			return "EOF"
		}
		d.mu.Unlock()
		return "(empty)"
	}
	n := len(d.buf)
	size := d.Sizes[d.sim.Choose("chunk", len(d.Sizes))]
	if size <= 0 || size > n {
		size = n
	}
	chunk := append([]byte(nil), d.buf[:size]...)
	d.buf = d.buf[size:]
	d.Chunks++
	d.mu.Unlock()
	d.to.mu.Lock()
	if d.to.closed {
		// the reader is gone: the bytes are dropped when they arrive, not when they were
		// written (so the outcome does not depend on whether Write or the peer's Close ran first)
		d.to.mu.Unlock()
		return fmt.Sprintf("%d of %d bytes (dropped: reader closed)", size, n)
	}
	d.to.avail = append(d.to.avail, chunk...)
	d.to.signal()
	d.to.mu.Unlock()
	return fmt.Sprintf("%d of %d bytes", size, n)
}

// must hold c.mu
func (c *Conn) signal() {
	close(c.wake)
	c.wake = make(chan struct{})
}

// DefaultChunkSizes: 0 = everything in flight (coalesces messages).
var DefaultChunkSizes = []int{0, 0, 1, 2, 5, 31, 300, 4096}

// ConnPair creates a connected pair of simulated stream connections.
func ConnPair(sim *kernel.Sim, nameA, nameB, addrA, addrB string, sizes []int) (a, b *Conn) {
	if sizes == nil {
		sizes = DefaultChunkSizes
	}
	a = &Conn{sim: sim, name: nameA, local: simAddr(addrA), remote: simAddr(addrB), wake: make(chan struct{})}
	b = &Conn{sim: sim, name: nameB, local: simAddr(addrB), remote: simAddr(addrA), wake: make(chan struct{})}
	a.peer, b.peer = b, a
	a.out = &byteDir{sim: sim, id: nameA + ">" + nameB, to: b, Sizes: sizes}
	b.out = &byteDir{sim: sim, id: nameB + ">" + nameA, to: a, Sizes: sizes}
	sim.AddLink(a.out)
	sim.AddLink(b.out)
	sim.OnTeardown(func() { a.Reset() })
	return
}

func (c *Conn) Read(p []byte) (int, error) {
	for {
		c.mu.Lock()
		if len(c.avail) > 0 {
			n := copy(p, c.avail)
			c.avail = c.avail[n:]
			c.ReadBytes += n
			c.mu.Unlock()
			return n, nil
		}
		if c.closed {
			c.mu.Unlock()
			return 0, net.ErrClosed
		}
		if c.rclosed {
			c.mu.Unlock()
			return 0, io.EOF
		}
		if !c.rdead.IsZero() && !time.Now().Before(c.rdead) {
			c.mu.Unlock()
			return 0, os.ErrDeadlineExceeded
		}
		w := c.wake
		c.mu.Unlock()
		<-w
	}
}

// Write never parks: real codecs hold their write lock around it.
func (c *Conn) Write(p []byte) (int, error) {
	c.mu.Lock()
	closed := c.closed
	c.mu.Unlock()
	if closed {
		return 0, net.ErrClosed
	}
	c.out.mu.Lock()
	defer c.out.mu.Unlock()
	if c.out.dead || c.out.eof {
		return 0, errors.New("simconn: write on closed connection")
	}
	c.out.buf = append(c.out.buf, p...)
	c.WrittenBytes += len(p)
	c.Writes = append(c.Writes, WriteEvent{At: time.Now(), N: len(p)})
	return len(p), nil
}

// Close closes this end: the peer reads EOF after the bytes in flight.
func (c *Conn) Close() error {
	c.mu.Lock()
	if c.closed {
		c.mu.Unlock()
		return nil
	}
	c.closed = true
	c.signal()
	c.mu.Unlock()
	c.out.mu.Lock()
	if !c.out.dead {
		c.out.eof = true
	}
	c.out.mu.Unlock()
	return nil
}

// Reset drops everything in flight and closes both ends at once.
func (c *Conn) Reset() {
	for _, e := range []*Conn{c, c.peer} {
		e.mu.Lock()
		e.closed, e.rclosed = true, true
		e.signal()
		e.mu.Unlock()
		e.out.mu.Lock()
		e.out.buf, e.out.eof, e.out.dead = nil, false, true
		e.out.mu.Unlock()
	}
}

func (c *Conn) LocalAddr() net.Addr           { return c.local }
func (c *Conn) RemoteAddr() net.Addr          { return c.remote }
func (c *Conn) SetDeadline(t time.Time) error { return c.SetReadDeadline(t) }

// SetReadDeadline: net/http aborts its background read before a hijack by
// setting a deadline in the past, so pending reads have to honour it.
func (c *Conn) SetReadDeadline(t time.Time) error {
	c.mu.Lock()
	c.rdead = t
	c.signal()
	c.mu.Unlock()
	if !t.IsZero() {
		if d := time.Until(t); d > 0 {
			time.AfterFunc(d, func() {
				c.mu.Lock()
				c.signal()
				c.mu.Unlock()
			})
		}
	}
	return nil
}
func (c *Conn) SetWriteDeadline(t time.Time) error { return nil }
func (c *Conn) Chunks() int                        { c.out.mu.Lock(); defer c.out.mu.Unlock(); return c.out.Chunks }

// WriteEvent is one Write call.
type WriteEvent struct {
	At time.Time
	N  int
}

// WriteLog returns a copy of the writes made on this end.
func (c *Conn) WriteLog() []WriteEvent {
	c.out.mu.Lock()
	defer c.out.mu.Unlock()
	return append([]WriteEvent(nil), c.Writes...)
}

// Listener is a simulated net.Listener: Dial creates a connection pair and
// hands the server end to Accept.
type Listener struct {
	sim    *kernel.Sim
	addr   simAddr
	mu     sync.Mutex
	queue  chan *Conn
	closed chan struct{}
	once   sync.Once
	n      int
	Sizes  []int
	Conns  []*Conn // client ends, in dial order
}

func NewListener(sim *kernel.Sim, addr string) *Listener {
	l := &Listener{sim: sim, addr: simAddr(addr), queue: make(chan *Conn, 256), closed: make(chan struct{})}
	sim.OnTeardown(func() { l.Close() })
	return l
}

func (l *Listener) Accept() (net.Conn, error) {
	select {
	case c := <-l.queue:
		return c, nil
	case <-l.closed:
		return nil, net.ErrClosed
	}
}

func (l *Listener) Close() error   { l.once.Do(func() { close(l.closed) }); return nil }
func (l *Listener) Addr() net.Addr { return l.addr }

// Dial connects a client whose source address is from.
func (l *Listener) Dial(from string) (*Conn, error) {
	select {
	case <-l.closed:
		return nil, errors.New("simlistener: connection refused")
	default:
	}
	l.mu.Lock()
	l.n++
	n := l.n
	l.mu.Unlock()
	if from == "" {
		from = fmt.Sprintf("10.7.0.%d:%d", n%250+1, 50000+n)
	}
	c, s := ConnPair(l.sim, fmt.Sprintf("cli%d", n), fmt.Sprintf("srv%d", n), from, string(l.addr), l.Sizes)
	l.mu.Lock()
	l.Conns = append(l.Conns, c)
	l.mu.Unlock()
	l.queue <- s
	return c, nil
}

// DialContext has the signature of net.Dialer.DialContext / http.Transport.DialContext.
func (l *Listener) DialContext(ctx context.Context, network, addr string) (net.Conn, error) {
	return l.Dial("")
}
