package kernel

import (
	"context"
	"fmt"
	"hash/fnv"
	"math/rand"
	"os"
	"runtime"
	"sort"
	"strconv"
	"strings"
	"sync"
	"sync/atomic"
	"testing"
	"testing/synctest"
	"time"
)

// Config describes one simulated run.
type Config struct {
	Property string
	Scenario string
	Seed     uint64 // run seed (already mixed)
	Replay   *Trace // when set, choices come from here instead of the PRNG
	KeepLog  bool   // keep the human-readable event log and choice tags
	MaxSteps int    // hard cap of macro-steps per Drive call (default 4000)
	Tier     string
}

// Violation is one oracle failure.
type Violation struct {
	Property string `json:"property"`
	Oracle   string `json:"oracle"` // which clause of the property failed
	Key      string `json:"key"`    // what identifies this failure (call site / input class); used for known findings
	Msg      string `json:"msg"`
	Step     int    `json:"step"`
}

// Result is what a run reports.
type Result struct {
	Seed       uint64         `json:"seed"`
	Steps      int            `json:"steps"`
	SimTimeNs  int64          `json:"sim_time_ns"`
	Hash       string         `json:"hash"`
	SchedSig   uint64         `json:"sched_sig"`
	Nontrivial bool           `json:"nontrivial"`
	Violations []Violation    `json:"violations,omitempty"`
	Faults     map[string]int `json:"faults,omitempty"`
	Probes     map[string]int `json:"probes,omitempty"`
	States     []uint64       `json:"-"`
	Trace      *Trace         `json:"trace,omitempty"`
	Log        []string       `json:"log,omitempty"`
	Summary    string         `json:"summary,omitempty"`
	Harness    string         `json:"harness_error,omitempty"`
}

// Deliverable is one direction of a simulated connection (or any other queue
// whose head the scheduler may hand over).
type Deliverable interface {
	ID() string
	Pending() int
	DeliverNext() string
}

// Action is one thing the scheduler may do next.
type Action struct {
	Kind   string // deliver | release | time | fault | advance
	ID     string
	Sig    string // coarse signature (role level) for the schedule signature
	Weight int
	Fault  string // fault kind counted when the action fires
	Do     func()
}

type logLine struct {
	step int
	src  string // "" = driver
	seq  int
	text string
}

type parked struct {
	task   *taskInfo
	seq    int
	class  string
	label  string
	ch     chan struct{}
	sleep  time.Duration // >0: the task asks the driver to let this much time pass
	weight int
}

type taskInfo struct {
	name string
	ops  int
	logs int
	done atomic.Bool
	fg   bool
}

// Task is a named goroutine of the harness (an actor / director).
type Task struct{ info *taskInfo }

func (t *Task) Done() bool { return t.info.done.Load() }

// Sim is one run.
type Sim struct {
	Cfg Config
	T   *testing.T

	ch      *chooser
	chMu    sync.Mutex
	drawStp int
	drawBy  string

	mu       sync.Mutex
	parkedL  []*parked
	byGoid   map[uint64]*taskInfo
	anonN    map[string]int
	tasks    []*taskInfo
	links    []Deliverable
	lines    []logLine
	dseq     int
	viol     []Violation
	violSeen map[string]bool
	faults   map[string]int
	probes   map[string]int
	states   map[uint64]struct{}

	yieldOn  map[string]int // class -> weight (0 = pass through)
	freeRun  atomic.Bool
	stop     atomic.Bool
	step     int
	start    time.Time
	sig      uint64
	nontriv  bool
	faultSrc []func() []Action
	invars   []func()
	teardown []func()
	stateFn  func() uint64

	// Background time: weight of a spontaneous "time passes" action while
	// other actions are enabled, and the durations it chooses from.
	TimeWeight int
	TimeSteps  []time.Duration
	// IdleSteps are the increments the clock advances by when nothing is enabled.
	IdleSteps []time.Duration
	IdleCap   time.Duration

	// Sched selects the scheduling policy (SchedUniform / SchedPriority).
	Sched   int
	prio    map[string]int
	prioLow int
	// prioChange: one change point per this many steps on average
	prioChange int

	// StallPermille > 0: at each scheduling decision, with this probability, one parked goroutine is frozen
	// where it stands for 5..60 decisions while everything else proceeds (a preempted thread, a slow node)
	StallPermille int
	stalled       map[string]int

	// AllowLeak: goroutines of the code under test that can never finish
	// (a call with an uncancellable context on a dead connection) are
	// tolerated at teardown and counted as a probe.
	AllowLeak bool

	Ctx    context.Context
	cancel context.CancelFunc
}

var heartbeat atomic.Int64

// Heartbeat is read by the real-time watchdog.
func Heartbeat() int64 { return heartbeat.Load() }

func goid() uint64 {
	var buf [40]byte
	n := runtime.Stack(buf[:], false)
	s := string(buf[:n])
	s = strings.TrimPrefix(s, "goroutine ")
	if i := strings.IndexByte(s, ' '); i > 0 {
		id, _ := strconv.ParseUint(s[:i], 10, 64)
		return id
	}
	return 0
}

// Run executes body inside one synctest bubble and returns the result.
func Run(t *testing.T, cfg Config, body func(s *Sim)) (res *Result) {
	if cfg.MaxSteps == 0 {
		cfg.MaxSteps = 4000
	}
	s := &Sim{
		Cfg:      cfg,
		T:        t,
		byGoid:   map[uint64]*taskInfo{},
		anonN:    map[string]int{},
		violSeen: map[string]bool{},
		faults:   map[string]int{},
		probes:   map[string]int{},
		states:   map[uint64]struct{}{},
		yieldOn:  map[string]int{},
		sig:      1469598103934665603,
		IdleSteps: []time.Duration{time.Millisecond, 100 * time.Millisecond, time.Second,
			5 * time.Second, 30 * time.Second, 2 * time.Minute},
		IdleCap: 2 * time.Hour,
	}
	s.ch = &chooser{keepTags: cfg.KeepLog}
	if cfg.Replay != nil {
		s.ch.replay = cfg.Replay.Vals
		if s.ch.replay == nil {
			s.ch.replay = []uint32{}
		}
	} else {
		s.ch.r = newRng(cfg.Seed)
	}
	// math/rand's global source (badger's ActiveHosts shuffle) is seeded per
	// run; needs GODEBUG=randseednop=0 (set by the worker's go:debug line)
	rand.Seed(int64(cfg.Seed))
	res = &Result{Seed: cfg.Seed}
	defer func() {
		if r := recover(); r != nil {
			if s.AllowLeak && strings.Contains(fmt.Sprint(r), "blocked goroutines remain") {
				s.probes["kernel.leaked_goroutines_at_teardown"]++
			} else if len(s.viol) > 0 && strings.Contains(fmt.Sprint(r), "blocked goroutines remain") {
				// the run ended on a violation: calls that never return, handlers stuck for good are what was
				// reported, and they are still there at the end
				s.probes["kernel.goroutines_left_blocked_by_a_violating_run"]++
			} else {
				res.Harness = fmt.Sprintf("bubble panic: %v", r)
				if os.Getenv("VERIF_STACKS") != "" {
					buf := make([]byte, 4<<20)
					os.Stderr.Write(buf[:runtime.Stack(buf, true)])
				}
			}
			s.fill(res)
		}
	}()
	synctest.Test(t, func(t *testing.T) {
		s.T = t
		s.start = time.Now()
		s.Ctx, s.cancel = context.WithCancel(context.Background())
		func() {
			defer func() {
				if r := recover(); r != nil {
					if _, ok := r.(stopRun); !ok {
						buf := make([]byte, 8192)
						n := runtime.Stack(buf, false)
						res.Harness = fmt.Sprintf("scenario panic: %v\n%s", r, buf[:n])
					}
				}
			}()
			body(s)
		}()
		s.Finish()
		res.SimTimeNs = int64(time.Since(s.start))
	})
	s.fill(res)
	return res
}

type stopRun struct{}

func (s *Sim) fill(res *Result) {
	s.mu.Lock()
	defer s.mu.Unlock()
	res.Steps = s.step
	res.Violations = append([]Violation(nil), s.viol...)
	res.Faults = s.faults
	res.Probes = s.probes
	res.SchedSig = s.sig
	res.Nontrivial = s.nontriv
	for k := range s.states {
		res.States = append(res.States, k)
	}
	sort.Slice(s.lines, func(i, j int) bool {
		a, b := s.lines[i], s.lines[j]
		if a.step != b.step {
			return a.step < b.step
		}
		if a.src != b.src {
			return a.src < b.src
		}
		return a.seq < b.seq
	})
	h := fnv.New64a()
	for _, l := range s.lines {
		fmt.Fprintf(h, "%d|%s|%s\n", l.step, l.src, l.text)
	}
	res.Hash = fmt.Sprintf("%016x", h.Sum64())
	if s.Cfg.KeepLog {
		for _, l := range s.lines {
			src := l.src
			if src == "" {
				src = "sched"
			}
			res.Log = append(res.Log, fmt.Sprintf("%4d %-10s %s", l.step, src, l.text))
		}
	}
	res.Trace = &Trace{Vals: s.ch.rec, Tags: s.ch.tags}
}

// ---------------------------------------------------------------- choices

// Choose returns a value in [0,n).  It may be called by the driver, by setup
// code, or by a task that is the only one drawing in the current macro-step.
func (s *Sim) Choose(tag string, n int) int {
	heartbeat.Add(1) // scenarios that never call Drive (store histories) make progress by drawing
	s.chMu.Lock()
	defer s.chMu.Unlock()
	return s.ch.choose(tag, n)
}

// TaskChoose is Choose for tasks; it records who drew in which macro-step so
// that two tasks drawing in the same step (an ordering the kernel does not
// control) is counted as a probe and shows up in the evidence.
func (s *Sim) TaskChoose(task, tag string, n int) int {
	s.chMu.Lock()
	if s.drawStp == s.step && s.drawBy != "" && s.drawBy != task {
		s.chMu.Unlock()
		s.Probe("kernel.choose_race")
		s.chMu.Lock()
	}
	s.drawStp, s.drawBy = s.step, task
	v := s.ch.choose(tag, n)
	s.chMu.Unlock()
	return v
}

// Chance is true with probability permille/1000; false is the benign value.
func (s *Sim) Chance(tag string, permille int) bool {
	if permille <= 0 {
		return false
	}
	return s.Choose(tag, 1000) >= 1000-permille
}

// Pick chooses one of the given values; the first is the benign one.
func Pick[T any](s *Sim, tag string, vals ...T) T { return vals[s.Choose(tag, len(vals))] }

// ---------------------------------------------------------------- log, probes, violations

// Event appends a driver-side line to the event log (hashed).
func (s *Sim) Event(format string, a ...interface{}) {
	if s.freeRun.Load() {
		return // teardown: what released goroutines do on their way out is decided by the Go runtime, not by the run
	}
	s.mu.Lock()
	s.dseq++
	s.lines = append(s.lines, logLine{step: s.step, seq: s.dseq, text: fmt.Sprintf(format, a...)})
	s.mu.Unlock()
}

// TaskLog appends a line on behalf of a task; lines of one task keep their
// order and the merged log is ordered by (step, source, sequence), so it does
// not depend on how goroutines of one macro-step were interleaved.
func (s *Sim) TaskLog(src string, format string, a ...interface{}) {
	if s.freeRun.Load() {
		return
	}
	s.mu.Lock()
	s.dseq++
	s.lines = append(s.lines, logLine{step: s.step, src: src, seq: s.dseq, text: fmt.Sprintf(format, a...)})
	s.mu.Unlock()
}

func (s *Sim) Fault(kind string) {
	if s.freeRun.Load() {
		return
	}
	s.mu.Lock()
	s.faults[kind]++
	s.nontriv = true
	s.mu.Unlock()
}

func (s *Sim) Probe(name string) {
	if s.freeRun.Load() {
		return
	}
	s.mu.Lock()
	s.probes[name]++
	s.mu.Unlock()
}

func (s *Sim) ProbeN(name string, n int) {
	if s.freeRun.Load() {
		return
	}
	s.mu.Lock()
	s.probes[name] += n
	s.mu.Unlock()
}

// MarkNontrivial flags the run as one that exercised a fault or a
// cross-operation interleaving.
func (s *Sim) MarkNontrivial() {
	s.mu.Lock()
	s.nontriv = true
	s.mu.Unlock()
}

// Violate records an oracle failure and asks the run to stop.
func (s *Sim) Violate(oracle, key, format string, a ...interface{}) {
	if s.freeRun.Load() {
		return // teardown: contexts are being cancelled and connections reset
	}
	msg := fmt.Sprintf(format, a...)
	s.mu.Lock()
	k := oracle + "\x00" + key
	if !s.violSeen[k] {
		s.violSeen[k] = true
		s.viol = append(s.viol, Violation{Property: s.Cfg.Property, Oracle: oracle, Key: key, Msg: msg, Step: s.step})
		s.dseq++
		s.lines = append(s.lines, logLine{step: s.step, src: "~oracle", seq: s.dseq, text: "VIOLATION " + oracle + " [" + key + "] " + msg})
	}
	s.mu.Unlock()
	s.stop.Store(true)
}

func (s *Sim) Violated() bool { return s.stop.Load() }

func (s *Sim) Step() int { return s.step }

// Now is the simulated time since the run began.
func (s *Sim) Now() time.Duration { return time.Since(s.start) }

// ---------------------------------------------------------------- tasks and yields

// Go starts a foreground task: Drive's default termination waits for it.
func (s *Sim) Go(name string, fn func()) *Task { return s.spawn(name, true, fn) }

// GoBG starts a background task (servers, serve loops).
func (s *Sim) GoBG(name string, fn func()) *Task { return s.spawn(name, false, fn) }

func (s *Sim) spawn(name string, fg bool, fn func()) *Task {
	ti := &taskInfo{name: name, fg: fg}
	s.mu.Lock()
	s.tasks = append(s.tasks, ti)
	s.mu.Unlock()
	reg := make(chan struct{})
	go func() {
		s.mu.Lock()
		s.byGoid[goid()] = ti
		s.mu.Unlock()
		close(reg)
		defer ti.done.Store(true)
		defer func() {
			if r := recover(); r != nil {
				if _, ok := r.(stopRun); ok {
					return
				}
				buf := make([]byte, 6000)
				n := runtime.Stack(buf, false)
				s.TaskPanic(name, r, string(buf[:n]))
			}
		}()
		fn()
	}()
	<-reg
	return &Task{ti}
}

// PanicHandler decides what a panic inside a task means; the default records
// a violation with oracle "panic" (a panic in real client-side code reached
// through a task), unless the stack shows that it started in harness code.
var harnessPrefix = "verif/sim/"

func (s *Sim) TaskPanic(name string, r interface{}, stack string) {
	// first non-runtime frame after the panic
	origin := ""
	for _, ln := range strings.Split(stack, "\n") {
		if strings.HasPrefix(ln, "\t") || strings.HasPrefix(ln, "goroutine ") || ln == "" {
			continue
		}
		if strings.HasPrefix(ln, "runtime.") || strings.HasPrefix(ln, "panic(") || strings.Contains(ln, "kernel.(*Sim).spawn") || strings.HasPrefix(ln, "runtime/debug.") {
			continue
		}
		origin = ln
		break
	}
	if strings.HasPrefix(origin, harnessPrefix) && !strings.Contains(fmt.Sprint(r), "vipnode") {
		s.mu.Lock()
		s.dseq++
		s.lines = append(s.lines, logLine{step: s.step, src: "~harness", seq: s.dseq, text: fmt.Sprintf("HARNESS PANIC in %s: %v at %s", name, r, origin)})
		s.mu.Unlock()
		s.Probe("kernel.harness_panic")
		s.harnessErr(fmt.Sprintf("task %s panicked in harness code: %v\n%s", name, r, stack))
		return
	}
	fn := origin
	if i := strings.IndexByte(fn, '('); i > 0 && !strings.HasPrefix(fn, "github.com") {
		fn = fn[:i]
	}
	if i := strings.LastIndex(fn, "("); i > 0 && strings.HasSuffix(fn, ")") && !strings.Contains(fn[i:], "*") {
		fn = fn[:i]
	}
	s.Violate("panic", "panic in "+fn, "task %s: panic: %v\n%s", name, r, trimStack(stack))
}

func trimStack(st string) string {
	lines := strings.Split(st, "\n")
	if len(lines) > 24 {
		lines = lines[:24]
	}
	return strings.Join(lines, "\n")
}

var harnessErrMu sync.Mutex
var harnessErrs []string

func (s *Sim) harnessErr(msg string) {
	harnessErrMu.Lock()
	harnessErrs = append(harnessErrs, msg)
	harnessErrMu.Unlock()
	s.stop.Store(true)
}

// TakeHarnessErrors returns and clears harness errors recorded by runs.
func TakeHarnessErrors() []string {
	harnessErrMu.Lock()
	defer harnessErrMu.Unlock()
	r := harnessErrs
	harnessErrs = nil
	return r
}

// SetYield enables parking at yield points of a class with a scheduling
// weight (0 disables: the call passes straight through).
func (s *Sim) SetYield(class string, weight int) {
	s.mu.Lock()
	s.yieldOn[class] = weight
	s.mu.Unlock()
}

func (s *Sim) YieldEnabled(class string) bool {
	s.mu.Lock()
	defer s.mu.Unlock()
	return s.yieldOn[class] > 0 && !s.freeRun.Load()
}

func (s *Sim) taskOf(label string) *taskInfo {
	id := goid()
	ti := s.byGoid[id]
	if ti == nil {
		// a goroutine of the code under test (handler, fan-out): it is named
		// after the first yield point it reaches
		n := s.anonN[label]
		s.anonN[label] = n + 1
		if n > 0 {
			s.probes["kernel.anon_label_tie"]++
		}
		ti = &taskInfo{name: fmt.Sprintf("~%s#%d", label, n)}
		s.byGoid[id] = ti
	}
	return ti
}

// Yield parks the calling goroutine until the scheduler releases it.  The
// caller must hold no lock.
func (s *Sim) Yield(class, label string) {
	if s.freeRun.Load() {
		return
	}
	s.mu.Lock()
	w := s.yieldOn[class]
	if w <= 0 {
		s.mu.Unlock()
		return
	}
	ti := s.taskOf(class + ":" + label)
	ti.ops++
	p := &parked{task: ti, seq: ti.ops, class: class, label: label, ch: make(chan struct{}), weight: w}
	s.parkedL = append(s.parkedL, p)
	s.mu.Unlock()
	raceMaskBegin()
	<-p.ch
	raceMaskEnd()
	if s.stop.Load() && !s.freeRun.Load() {
		// the run is being stopped after a violation: continue, teardown will
		// switch to free-run
	}
}

// Sleep lets simulated time pass for the calling task: the driver performs
// the sleep as one action (so that it is a scheduling decision when it
// happens relative to everything else in flight).
func (s *Sim) Sleep(name string, d time.Duration) {
	if s.freeRun.Load() {
		return
	}
	s.mu.Lock()
	ti := s.taskOf("sleep:" + name)
	ti.ops++
	p := &parked{task: ti, seq: ti.ops, class: "sleep", label: d.String(), ch: make(chan struct{}), sleep: d, weight: 4}
	s.parkedL = append(s.parkedL, p)
	s.mu.Unlock()
	raceMaskBegin()
	<-p.ch
	raceMaskEnd()
}

// Gate parks the calling task (class "op") — used by actors before each
// operation so that the scheduler decides when it starts.
func (s *Sim) Gate(label string) { s.Yield("op", label) }

// ---------------------------------------------------------------- links, faults, invariants

func (s *Sim) AddLink(d Deliverable) {
	s.mu.Lock()
	s.links = append(s.links, d)
	s.mu.Unlock()
}

func (s *Sim) AddFaultSource(f func() []Action) { s.faultSrc = append(s.faultSrc, f) }
func (s *Sim) AddInvariant(f func())            { s.invars = append(s.invars, f) }

// OnTeardown registers a hook for the end of the run (hooks run last-registered first).  Goroutines of the code
// under test may register hooks too (a server started by the scenario), also while the run is already ending.
func (s *Sim) OnTeardown(f func()) {
	s.mu.Lock()
	s.teardown = append(s.teardown, f)
	s.mu.Unlock()
}
func (s *Sim) SetStateSig(f func() uint64) { s.stateFn = f }

func (s *Sim) wait() {
	raceMaskBegin()
	synctest.Wait()
	raceMaskEnd()
}

// Settle waits for quiescence (no scheduling decision).
func (s *Sim) Settle() { s.wait() }

// DriveResult says why Drive returned.
type DriveResult int

const (
	Done DriveResult = iota
	Stuck
	Budget
	Stopped
)

func (r DriveResult) String() string {
	return [...]string{"done", "stuck", "budget", "stopped"}[r]
}

// AllForegroundDone is the default termination predicate.
func (s *Sim) AllForegroundDone() bool {
	s.mu.Lock()
	defer s.mu.Unlock()
	for _, t := range s.tasks {
		if t.fg && !t.done.Load() {
			return false
		}
	}
	return true
}

func (s *Sim) enabled(faults bool) []Action {
	s.mu.Lock()
	links := append([]Deliverable(nil), s.links...)
	pk := append([]*parked(nil), s.parkedL...)
	s.mu.Unlock()
	// canonical order: by id, not by registration order (connections may be
	// created by tasks that run in the same macro-step)
	sort.SliceStable(links, func(i, j int) bool { return links[i].ID() < links[j].ID() })
	var acts []Action
	for _, l := range links {
		if l.Pending() > 0 {
			l := l
			id := l.ID()
			acts = append(acts, Action{Kind: "deliver", ID: id, Sig: "d:" + sigOf(id), Weight: 6, Do: func() {
				d := l.DeliverNext()
				s.Event("deliver %s %s", id, d)
			}})
		}
	}
	sort.Slice(pk, func(i, j int) bool {
		if pk[i].task.name != pk[j].task.name {
			return pk[i].task.name < pk[j].task.name
		}
		return pk[i].seq < pk[j].seq
	})
	for _, p := range pk {
		p := p
		if p.sleep > 0 {
			acts = append(acts, Action{Kind: "time", ID: p.task.name, Sig: "t:" + sigOf(p.task.name), Weight: p.weight, Do: func() {
				s.Event("time +%s for %s", p.sleep, p.task.name)
				s.unpark(p)
				s.sleepDriver(p.sleep)
				close(p.ch)
			}})
			continue
		}
		acts = append(acts, Action{Kind: "release", ID: p.task.name, Sig: "r:" + p.class + ":" + sigOf(p.task.name), Weight: p.weight, Do: func() {
			s.Event("release %s @%s %s", p.task.name, p.class, p.label)
			s.unpark(p)
			close(p.ch)
		}})
	}
	if len(acts) > 0 && s.TimeWeight > 0 && len(s.TimeSteps) > 0 {
		acts = append(acts, Action{Kind: "advance", ID: "clock", Sig: "a", Weight: s.TimeWeight, Fault: "time_passes_while_operations_are_in_flight", Do: func() {
			d := s.TimeSteps[s.Choose("advance", len(s.TimeSteps))]
			s.Event("advance +%s", d)
			s.sleepDriver(d)
		}})
	}
	if faults {
		for _, f := range s.faultSrc {
			acts = append(acts, f()...)
		}
	}
	return acts
}

func sigOf(id string) string {
	// coarse role: strip digits and anything after '#'
	if i := strings.IndexByte(id, '#'); i >= 0 {
		id = id[:i]
	}
	b := make([]byte, 0, len(id))
	for i := 0; i < len(id) && len(b) < 24; i++ {
		c := id[i]
		if c >= '0' && c <= '9' {
			continue
		}
		b = append(b, c)
	}
	return string(b)
}

func (s *Sim) unpark(p *parked) {
	s.mu.Lock()
	for i, q := range s.parkedL {
		if q == p {
			s.parkedL = append(s.parkedL[:i], s.parkedL[i+1:]...)
			break
		}
	}
	s.mu.Unlock()
}

func (s *Sim) sleepDriver(d time.Duration) {
	raceMaskBegin()
	time.Sleep(d)
	raceMaskEnd()
}

// applyStalls freezes parked goroutines for a while: their release actions are withheld as long as something else can run.
func (s *Sim) applyStalls(acts []Action) []Action {
	if s.stalled == nil {
		s.stalled = map[string]int{}
	}
	if s.Choose("stall", 1000) < s.StallPermille {
		var rel []int
		for i, a := range acts {
			if a.Kind == "release" && s.stalled[a.ID] <= s.step {
				rel = append(rel, i)
			}
		}
		if len(rel) > 0 {
			a := acts[rel[s.Choose("stall.who", len(rel))]]
			n := 5 + s.Choose("stall.len", 56)
			s.stalled[a.ID] = s.step + n
			s.Fault("goroutine_stalled_mid_operation")
			s.Event("stall %s for %d decisions", a.ID, n)
		}
	}
	var out []Action
	live := 0
	for _, a := range acts {
		if a.Kind == "release" && s.stalled[a.ID] > s.step {
			continue
		}
		out = append(out, a)
		if a.Kind != "advance" && a.Kind != "fault" {
			live++
		}
	}
	if live == 0 {
		return acts // only stalled goroutines can run: the stall is over
	}
	return out
}

// Scheduling policies.  Uniform weighted choice explores short races well but
// almost never lets one task run a long stretch while another stays parked
// at one point; the priority policy (after PCT, Burckhardt et al. 2010) gives
// every task and link a random priority, always runs the enabled action of
// highest priority, and demotes the running one at a few random change points.
const (
	SchedUniform  = 0
	SchedPriority = 1
)

func (s *Sim) pickByPriority(acts []Action) int {
	if s.prio == nil {
		s.prio = map[string]int{}
		s.prioLow = 0
		// how often the running entity is demoted varies per run: few long uninterrupted stretches or many short ones
		s.prioChange = []int{5, 10, 25}[s.Choose("pct.rate", 3)]
	}
	// faults and spontaneous time steps keep a small uniform share
	var special []int
	for i, a := range acts {
		if a.Kind == "fault" || a.Kind == "advance" {
			special = append(special, i)
		}
	}
	if len(special) > 0 && s.Choose("pct.special", 12) == 0 {
		return special[s.Choose("pct.which", len(special))]
	}
	best, bestP := -1, 0
	for i, a := range acts {
		if a.Kind == "fault" || a.Kind == "advance" {
			continue
		}
		key := a.Kind[:1] + ":" + a.ID
		p, ok := s.prio[key]
		if !ok {
			p = 1000 + s.Choose("pct.prio", 1000)
			s.prio[key] = p
		}
		if best < 0 || p > bestP {
			best, bestP = i, p
		}
	}
	if best < 0 {
		return special[s.Choose("pct.which", len(special))]
	}
	// change point: the running entity drops below everything else
	if s.Choose("pct.change", s.prioChange) == 0 {
		s.prioLow--
		s.prio[acts[best].Kind[:1]+":"+acts[best].ID] = s.prioLow
	}
	return best
}

// DriveOpts configures one Drive call.
type DriveOpts struct {
	Until    func() bool // default: all foreground tasks done
	Faults   bool        // offer fault actions
	FIFO     bool        // drain mode: always take the first enabled action (no PRNG)
	MaxSteps int
	IdleCap  time.Duration
	// Quiet: after Until holds keep going until nothing is enabled any more
	// (so that no goroutine of the code under test is left mid-flight).
	Quiet bool
}

// Drive is the scheduler loop: wait for quiescence, evaluate invariants,
// collect enabled actions, let the chooser pick one, apply it.
func (s *Sim) Drive(o DriveOpts) DriveResult {
	until := o.Until
	if until == nil {
		until = s.AllForegroundDone
	}
	max := o.MaxSteps
	if max == 0 {
		max = s.Cfg.MaxSteps
	}
	idleCap := o.IdleCap
	if idleCap == 0 {
		idleCap = s.IdleCap
	}
	var idle time.Duration
	for n := 0; n < max; n++ {
		s.wait()
		heartbeat.Add(1)
		for _, f := range s.invars {
			f()
		}
		if s.stateFn != nil {
			v := s.stateFn()
			s.mu.Lock()
			if len(s.states) < 4096 {
				s.states[v] = struct{}{}
			}
			s.mu.Unlock()
		}
		if s.stop.Load() {
			return Stopped
		}
		acts := s.enabled(o.Faults && !o.FIFO)
		if until() && (!o.Quiet || len(acts) == 0) {
			return Done
		}
		s.step++
		if len(acts) == 0 {
			if idle >= idleCap {
				s.Event("stuck: nothing enabled after %s of idle time", idle)
				if os.Getenv("VERIF_STACKS") != "" {
					buf := make([]byte, 1<<20)
					os.Stderr.Write(buf[:runtime.Stack(buf, true)])
				}
				return Stuck
			}
			var d time.Duration
			if o.FIFO {
				d = s.IdleSteps[min(len(s.IdleSteps)-1, 3)]
			} else {
				d = s.IdleSteps[s.Choose("idle", len(s.IdleSteps))]
			}
			s.Event("idle +%s", d)
			s.sleepDriver(d)
			idle += d
			continue
		}
		idle = 0
		if s.StallPermille > 0 && !o.FIFO {
			acts = s.applyStalls(acts)
		}
		total := 0
		for _, a := range acts {
			total += a.Weight
		}
		idx := 0
		switch {
		case o.FIFO:
		case s.Sched == SchedPriority:
			idx = s.pickByPriority(acts)
		default:
			r := s.Choose("act", total)
			for i, a := range acts {
				if r < a.Weight {
					idx = i
					break
				}
				r -= a.Weight
			}
		}
		a := acts[idx]
		if len(acts) > 1 && idx > 0 && a.Kind != "advance" {
			s.mu.Lock()
			s.nontriv = true
			s.mu.Unlock()
		}
		s.sig = (s.sig ^ hashStr(a.Sig)) * 1099511628211
		if a.Fault != "" {
			s.Fault(a.Fault)
		}
		// every scheduling decision takes a microsecond of simulated time: no
		// two macro-steps share an instant (nonces, pending-table timestamps)
		s.sleepDriver(time.Microsecond)
		a.Do()
	}
	s.Event("budget: %d steps used", max)
	return Budget
}

func hashStr(x string) uint64 {
	h := uint64(14695981039346656037)
	for i := 0; i < len(x); i++ {
		h = (h ^ uint64(x[i])) * 1099511628211
	}
	return h
}

// Finish switches to free-run: every yield passes through, parked tasks are
// released, the root context is cancelled and teardown hooks run.  It is
// idempotent.
func (s *Sim) Finish() {
	if s.freeRun.Swap(true) {
		return
	}
	s.mu.Lock()
	pk := s.parkedL
	s.parkedL = nil
	s.mu.Unlock()
	for _, p := range pk {
		close(p.ch)
	}
	s.cancel()
	// let everything that was released come to rest before connections are
	// reset and stores closed (badger blocks readers for ever once closed)
	s.wait()
	for {
		s.mu.Lock()
		n := len(s.teardown)
		if n == 0 {
			s.mu.Unlock()
			break
		}
		f := s.teardown[n-1]
		s.teardown = s.teardown[:n-1]
		s.mu.Unlock()
		f()
	}
}

// Abort stops the scenario body (used after a violation).
func (s *Sim) Abort() { panic(stopRun{}) }

// IsParked reports whether the named task is currently parked at a yield point.
func (s *Sim) IsParked(task string) bool {
	s.mu.Lock()
	defer s.mu.Unlock()
	for _, p := range s.parkedL {
		if p.task.name == task {
			return true
		}
	}
	return false
}

// ParkedAt returns the label of the yield point the named task is parked at ("" if it is not parked).
func (s *Sim) ParkedAt(task string) string {
	s.mu.Lock()
	defer s.mu.Unlock()
	for _, p := range s.parkedL {
		if p.task.name == task {
			return p.label
		}
	}
	return ""
}

// ParkedCount is the number of goroutines parked at yield points.
func (s *Sim) ParkedCount() int {
	s.mu.Lock()
	defer s.mu.Unlock()
	return len(s.parkedL)
}

// SigMix folds a token into the run's schedule signature (sequential
// scenarios, which take no scheduler steps, describe their history with it).
func (s *Sim) SigMix(tok string) {
	s.mu.Lock()
	s.sig = (s.sig ^ hashStr(tok)) * 1099511628211
	s.mu.Unlock()
}

// CountStep lets sequential scenarios account one operation as one step.
func (s *Sim) CountStep() { s.step++ }

// ReleaseFirst releases the first parked task in canonical order without
// consulting the chooser (enumeration-style scenarios); it reports whether
// there was one.
func (s *Sim) ReleaseFirst() bool {
	s.mu.Lock()
	pk := append([]*parked(nil), s.parkedL...)
	s.mu.Unlock()
	if len(pk) == 0 {
		return false
	}
	sort.Slice(pk, func(i, j int) bool {
		if pk[i].task.name != pk[j].task.name {
			return pk[i].task.name < pk[j].task.name
		}
		return pk[i].seq < pk[j].seq
	})
	p := pk[0]
	s.step++
	s.Event("release %s @%s %s", p.task.name, p.class, p.label)
	s.unpark(p)
	s.sleepDriver(time.Microsecond)
	close(p.ch)
	return true
}

// ReleaseTask releases the named task from the yield point it is parked at, without consulting the chooser (scenarios
// whose schedule is a generated plan rather than a sequence of free choices); it reports whether the task was parked.
func (s *Sim) ReleaseTask(name string) bool {
	s.mu.Lock()
	var p *parked
	for _, q := range s.parkedL {
		if q.task.name == name && (p == nil || q.seq < p.seq) {
			p = q
		}
	}
	s.mu.Unlock()
	if p == nil {
		return false
	}
	s.step++
	s.Event("release %s @%s %s", p.task.name, p.class, p.label)
	s.unpark(p)
	s.sleepDriver(time.Microsecond)
	close(p.ch)
	return true
}

// LinksIdle reports whether nothing is in flight on any connection.
func (s *Sim) LinksIdle() bool {
	s.mu.Lock()
	links := append([]Deliverable(nil), s.links...)
	s.mu.Unlock()
	for _, l := range links {
		if l.Pending() > 0 {
			return false
		}
	}
	return true
}
