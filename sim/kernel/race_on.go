//go:build race

package kernel

import "runtime"

// In -race builds the kernel's own hand-offs (park, release, quiescence wait)
// are hidden from ThreadSanitizer, so that two accesses which the code under
// test leaves unordered are reported even though the cooperative scheduler
// ran them one after the other.
func raceMaskBegin() { runtime.RaceDisable() }
func raceMaskEnd()   { runtime.RaceEnable() }

const RaceBuild = true
