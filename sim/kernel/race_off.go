//go:build !race

package kernel

func raceMaskBegin() {}
func raceMaskEnd()   {}

const RaceBuild = false
