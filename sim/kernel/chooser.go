// Package kernel is the deterministic-simulation kernel: one PRNG-driven
// chooser, a macro-step scheduler over a testing/synctest bubble, an event
// log with a hash chain, violations, fault and probe counters.
package kernel

import "fmt"

// splitmix64 / xoshiro256** — written out so that the stream never depends on
// the Go release.
type rng struct{ s [4]uint64 }

func splitmix(x *uint64) uint64 {
	*x += 0x9e3779b97f4a7c15
	z := *x
	z = (z ^ (z >> 30)) * 0xbf58476d1ce4e5b9
	z = (z ^ (z >> 27)) * 0x94d049bb133111eb
	return z ^ (z >> 31)
}

func newRng(seed uint64) *rng {
	r := &rng{}
	for i := range r.s {
		r.s[i] = splitmix(&seed)
	}
	return r
}

func rotl(x uint64, k uint) uint64 { return (x << k) | (x >> (64 - k)) }

func (r *rng) next() uint64 {
	s := &r.s
	res := rotl(s[1]*5, 7) * 9
	t := s[1] << 17
	s[2] ^= s[0]
	s[3] ^= s[1]
	s[1] ^= s[2]
	s[0] ^= s[3]
	s[2] ^= t
	s[3] = rotl(s[3], 45)
	return res
}

// Mix derives a run seed from the user seed, the scenario and the run index.
func Mix(seed uint64, scenario string, run uint64) uint64 {
	x := seed ^ 0x5851f42d4c957f2d
	for _, c := range []byte(scenario) {
		x = (x ^ uint64(c)) * 0x100000001b3
	}
	x ^= run * 0x9e3779b97f4a7c15
	splitmix(&x)
	return splitmix(&x)
}

// Trace is the recorded list of answers of Choose: it is the whole schedule,
// workload and fault sequence of a run.
type Trace struct {
	Vals []uint32 `json:"vals"`
	Tags []string `json:"tags,omitempty"`
}

// chooser answers every choice of a run, from the PRNG (search mode) or from
// a recorded trace (replay / minimise mode).  Value 0 is always the benign
// choice (no fault, program order, FIFO, minimum delay), so that shrinking a
// trace towards zeros simplifies the run.
type chooser struct {
	r        *rng
	replay   []uint32
	pos      int
	rec      []uint32
	tags     []string
	keepTags bool
}

func (c *chooser) choose(tag string, n int) int {
	if n <= 0 {
		panic(fmt.Sprintf("choose(%s,%d)", tag, n))
	}
	var v uint32
	if c.replay != nil {
		if c.pos < len(c.replay) {
			v = c.replay[c.pos]
		}
		c.pos++
		v %= uint32(n)
	} else {
		if n > 1 {
			v = uint32(c.r.next() % uint64(n))
		}
	}
	c.rec = append(c.rec, v)
	if c.keepTags {
		c.tags = append(c.tags, fmt.Sprintf("%s/%d", tag, n))
	}
	return int(v)
}
