package scen

import (
	"context"
	"crypto/ecdsa"
	"encoding/json"
	"errors"
	"fmt"
	"math/big"
	"reflect"
	"sort"
	"strings"
	"sync"
	"time"

	"github.com/ethereum/go-ethereum/crypto"
	"github.com/ethereum/go-ethereum/p2p/discv5"
	"github.com/vipnode/vipnode/v2/ethnode"
	"github.com/vipnode/vipnode/v2/jsonrpc2"
	"github.com/vipnode/vipnode/v2/pool"
	"github.com/vipnode/vipnode/v2/pool/balance"
	"github.com/vipnode/vipnode/v2/pool/payment"
	"github.com/vipnode/vipnode/v2/pool/store"
	"github.com/vipnode/vipnode/v2/request"
	"verif/sim/kernel"
	"verif/sim/models"
	"verif/sim/seams"
)

// WorldCfg is the per-run (swarm) configuration of a pool world.
type WorldCfg struct {
	Driver          string // memory | badger
	Hosts, Clients  int
	Wallets         int
	Price           *big.Int
	Interval        time.Duration
	MinBalance      *big.Int // nil = unset
	MaxRequestHosts int
	Fee             *big.Int // nil = none
	WithdrawMin     *big.Int
	TxnYields       bool
	StoreYields     int // weight, 0 = off
	PostWrite       int
	PendingLimit    bool
}

// World is the L1 composition: real VipnodePool + payPerInterval + store
// driver behind YieldStore + PaymentService + real jsonrpc2 on both ends of
// simulated connections, with scripted agents.
type World struct {
	S     *kernel.Sim
	Cfg   WorldCfg
	Inner store.Store
	YS    *seams.YieldStore
	Dep   *SimDeposit
	Set   *SimSettle
	Pool  *pool.VipnodePool
	Pay   *payment.PaymentService
	Srv   *jsonrpc2.Server

	Actors  []*Actor
	Wallets []*Wallet
	byID    map[string]*Actor

	mu       sync.Mutex
	seq      int64 // global observation sequence number
	connN    int
	Conns    []*Conn
	Ref      *models.RefStore // sequential mirror (director-maintained)
	modelNow time.Time        // the instant the model evaluates the current operation at
	Reg      map[string]*Conn // model registry: host id -> most recently registered connection
	deposit  map[store.Account]*big.Int
}

// Wallet is a wallet identity (address-style, signs with the Ethereum prefix).
type Wallet struct {
	Name string
	Key  *ecdsa.PrivateKey
	Addr string
}

// Actor is a scripted agent: a node identity with its connections.
type Actor struct {
	W      *World
	Name   string
	Key    *ecdsa.PrivateKey
	ID     string
	IsHost bool
	Kind   string // "geth" | "parity" | ""
	Addr   string // source address of its connections (host:port)
	Wallet *Wallet
	Conn   *Conn
	Policy HostPolicy
	// AckValue: the host's agent answers instructions with a value (true) instead of null - an acknowledgement all the same
	AckValue bool
}

// HostPolicy says how a host answers reverse calls.
type HostPolicy int

const (
	PolicyAck HostPolicy = iota
	PolicyError
	PolicySilent // never answers
	PolicySlow   // answers after SlowBy
	PolicyDeaf   // has stopped reading: the pool's requests to it block in the write
)

func (p HostPolicy) String() string { return [...]string{"ack", "error", "silent", "slow", "deaf"}[p] }

// Instr is one reverse instruction a host received.
type Instr struct {
	Method  string // whitelist | disconnect
	NodeID  string
	Conn    string
	Seq     int64 // when the handler ran
	Replied bool
	OK      bool
}

// Conn is one simulated connection between an actor and the pool.
type Conn struct {
	Name       string
	A          *Actor
	AgentEnd   *seams.Codec
	PoolEnd    *seams.Codec
	Agent      *jsonrpc2.Remote // actor side
	PoolSide   *jsonrpc2.Remote // pool side (what the pool registers for a host)
	RP         *pool.RemotePool
	Host       *HostSvc
	Closed     bool  // closed by a fault / op
	closedSeq  int64 // when
	Unreg      bool  // the pool's disconnect callback ran
	unregSeq   int64 // when it had run
	regSeq     int64 // when the pool wrote the reply to a host registration on this connection (0 = never)
	acks       []ackEv
	reqMethods map[string]string // rpc id -> nodeID param of reverse calls seen by the agent end
	replies    []replyEv
	reqReads   []reqEv
	reverse    []reqEv // reverse calls the pool wrote on this connection
}

type ackEv struct {
	RPCID  string
	NodeID string
	Method string
	OK     bool
	Seq    int64
}
type replyEv struct {
	ID  string
	Seq int64
	At  time.Time
	Raw []byte
}
type reqEv struct {
	ID     string
	Method string
	Param0 string // first parameter when it is a string (node id of reverse calls)
	Seq    int64
	At     time.Time
}

// HostSvc is the reverse service an agent exposes (vipnode_whitelist, vipnode_disconnect).
type HostSvc struct {
	w    *World
	a    *Actor
	c    *Conn
	mu   sync.Mutex
	Got  []Instr
	Slow time.Duration
}

func (h *HostSvc) handle(ctx context.Context, method, nodeID string) error {
	h.mu.Lock()
	idx := len(h.Got)
	h.Got = append(h.Got, Instr{Method: method, NodeID: nodeID, Conn: h.c.Name, Seq: h.w.nextSeq()})
	pol := h.a.Policy
	h.mu.Unlock()
	h.w.S.Yield("hostsvc", h.a.Name+" "+method+" "+short10(nodeID))
	var err error
	if pol != PolicyAck {
		h.w.S.Fault("host_" + pol.String() + "_on_reverse_call")
	}
	switch pol {
	case PolicyError:
		err = errors.New("host refuses")
	case PolicySilent:
		<-h.w.S.Ctx.Done()
		return errors.New("silent")
	case PolicySlow:
		h.w.S.Sleep(h.a.Name+".slow", h.Slow)
	}
	h.mu.Lock()
	h.Got[idx].Replied, h.Got[idx].OK = true, err == nil
	h.mu.Unlock()
	return err
}

func (h *HostSvc) Whitelist(ctx context.Context, nodeID string) (interface{}, error) {
	return h.ack(h.handle(ctx, "whitelist", nodeID))
}
func (h *HostSvc) Disconnect(ctx context.Context, nodeID string) (interface{}, error) {
	return h.ack(h.handle(ctx, "disconnect", nodeID))
}

// ack: what a successful instruction is answered with (null, as the repository's agent does, or a value).
func (h *HostSvc) ack(err error) (interface{}, error) {
	if err == nil && h.a.AckValue {
		return true, nil
	}
	return nil, err
}

func short10(x string) string {
	if len(x) > 10 {
		return x[:6] + ".." + x[len(x)-2:]
	}
	return x
}

// SimDeposit is the on-chain deposit table behind a store.BalanceStore proxy
// (what payment.ContractPayment is in production).
type SimDeposit struct {
	w     *World
	inner store.BalanceStore
}

func (d *SimDeposit) dep(acc store.Account) *big.Int {
	d.w.mu.Lock()
	defer d.w.mu.Unlock()
	if v, ok := d.w.deposit[acc]; ok {
		return new(big.Int).Set(v)
	}
	return new(big.Int)
}

func (d *SimDeposit) GetNodeBalance(id store.NodeID) (store.Balance, error) {
	b, err := d.inner.GetNodeBalance(id)
	if err != nil || len(b.Account) == 0 {
		return b, err
	}
	b.Deposit = *d.dep(b.Account)
	return b, nil
}
func (d *SimDeposit) AddNodeBalance(id store.NodeID, c *big.Int) error {
	return d.inner.AddNodeBalance(id, c)
}
func (d *SimDeposit) GetAccountBalance(acc store.Account) (store.Balance, error) {
	b, err := d.inner.GetAccountBalance(acc)
	if err != nil {
		return b, err
	}
	b.Deposit = *d.dep(acc)
	return b, nil
}
func (d *SimDeposit) AddAccountBalance(acc store.Account, c *big.Int) error {
	return d.inner.AddAccountBalance(acc, c)
}

// Payment is one settlement the simulated chain executed.
type Payment struct {
	Account store.Account
	Amount  *big.Int
	NewBal  *big.Int
	Seq     int64
}

// SimSettle is the settlement handler: it can fail at chosen attempts and
// park inside the settlement (yield class "settle").
type SimSettle struct {
	w        *World
	mu       sync.Mutex
	Attempts int
	FailAt   map[int]bool
	Paid     []Payment
}

func (t *SimSettle) Settle(account store.Account, amount *big.Int, newBalance *big.Int) (string, error) {
	t.mu.Lock()
	t.Attempts++
	n := t.Attempts
	fail := t.FailAt[n]
	t.mu.Unlock()
	t.w.S.Yield("settle", fmt.Sprintf("settle %s attempt %d", short10(string(account)), n))
	if fail {
		t.w.S.Fault("settlement_failure")
		return "", errors.New("settlement failed (injected)")
	}
	t.mu.Lock()
	t.Paid = append(t.Paid, Payment{Account: account, Amount: new(big.Int).Set(amount), NewBal: new(big.Int).Set(newBalance), Seq: t.w.nextSeq()})
	t.mu.Unlock()
	t.w.mu.Lock()
	t.w.deposit[account] = new(big.Int).Set(newBalance)
	t.w.mu.Unlock()
	return fmt.Sprintf("tx%d", n), nil
}

func (w *World) nextSeq() int64 {
	w.mu.Lock()
	defer w.mu.Unlock()
	w.seq++
	return w.seq
}

func detKey(label string) *ecdsa.PrivateKey {
	h := crypto.Keccak256([]byte("verif-sim-key:" + label))
	k, err := crypto.ToECDSA(h)
	if err != nil {
		panic(err)
	}
	return k
}

// NewWorld builds the world from cfg.
func NewWorld(s *kernel.Sim, cfg WorldCfg) *World {
	w := &World{S: s, Cfg: cfg, byID: map[string]*Actor{}, Reg: map[string]*Conn{}, deposit: map[store.Account]*big.Int{}}
	dir := ""
	if cfg.Driver == "badger" {
		dir = seams.ScratchDir(s, "world")
	}
	inner, err := seams.OpenStore(s, cfg.Driver, dir, 1)
	if err != nil {
		panic(err)
	}
	w.Inner = inner
	s.OnTeardown(func() { seams.CloseStore(s, inner) })
	w.YS = seams.NewYieldStore(s, inner, cfg.Driver)
	w.modelNow = time.Now()
	w.Ref = models.NewRefStore(func() time.Time { return w.modelNow })
	if cfg.TxnYields && cfg.Driver == "badger" {
		seams.InstallTxnHook(s)
		s.SetYield("txn", 2)
	}
	if cfg.StoreYields > 0 {
		s.SetYield("store", cfg.StoreYields)
		s.SetYield("storeret", 1)
	}
	if cfg.PostWrite > 0 {
		s.SetYield("postwrite", cfg.PostWrite)
	}
	w.Dep = &SimDeposit{w: w, inner: w.YS}
	w.Set = &SimSettle{w: w, FailAt: map[int]bool{}}
	mgr := balance.PayPerInterval(w.Dep, cfg.Interval, cfg.Price)
	if cfg.MinBalance != nil {
		mgr.MinBalance = new(big.Int).Set(cfg.MinBalance)
	}
	w.Pool = pool.New(w.YS, mgr)
	w.Pool.Version = "sim"
	w.Pool.MaxRequestHosts = cfg.MaxRequestHosts
	w.Pay = &payment.PaymentService{NonceStore: w.YS, AccountStore: w.YS, BalanceStore: w.Dep, Settle: w.Set.Settle}
	if cfg.Fee != nil {
		fee := new(big.Int).Set(cfg.Fee)
		w.Pay.WithdrawFee = func(a *big.Int) *big.Int { return new(big.Int).Sub(a, fee) }
	}
	if cfg.WithdrawMin != nil {
		w.Pay.WithdrawMin = new(big.Int).Set(cfg.WithdrawMin)
	}
	// the registrations of pool.go
	w.Srv = &jsonrpc2.Server{}
	if err := w.Srv.Register("vipnode_", w.Pool, "connect", "disconnect", "ping", "update", "peer", "client", "host"); err != nil {
		panic(err)
	}
	if err := w.Srv.Register("pool_", w.Pay); err != nil {
		panic(err)
	}
	for i := 0; i < cfg.Wallets; i++ {
		k := detKey(fmt.Sprintf("wallet%d", i))
		w.Wallets = append(w.Wallets, &Wallet{Name: fmt.Sprintf("W%d", i), Key: k, Addr: crypto.PubkeyToAddress(k.PublicKey).Hex()})
	}
	for i := 0; i < cfg.Hosts+cfg.Clients; i++ {
		host := i < cfg.Hosts
		name := fmt.Sprintf("c%d", i-cfg.Hosts)
		if host {
			name = fmt.Sprintf("h%d", i)
		}
		w.AddActor(name, host, "geth")
	}
	return w
}

func (w *World) AddActor(name string, host bool, kind string) *Actor {
	k := detKey(name)
	a := &Actor{W: w, Name: name, Key: k, ID: discv5.PubkeyID(&k.PublicKey).String(), IsHost: host, Kind: kind,
		Addr: fmt.Sprintf("10.0.%d.%d:%d", len(w.Actors)/200, 1+len(w.Actors)%200, 40000+len(w.Actors))}
	w.Actors = append(w.Actors, a)
	w.byID[a.ID] = a
	return a
}

func (w *World) ActorByID(id string) *Actor { return w.byID[id] }

// Dial opens a new connection for the actor: real jsonrpc2.Remote on both
// ends; the pool end does what server.go does (Serve, then Close and the
// disconnect callback).
func (w *World) Dial(a *Actor) *Conn {
	w.mu.Lock()
	w.connN++
	name := fmt.Sprintf("%s.k%d", a.Name, w.connN)
	w.mu.Unlock()
	ae, pe := seams.Pipe(w.S, name, "P/"+name, a.Addr, "192.0.2.1:8080")
	c := &Conn{Name: name, A: a, AgentEnd: ae, PoolEnd: pe, reqMethods: map[string]string{}}
	if a.Policy == PolicyDeaf {
		pe.SetBlockRequests(true)
	}
	c.Host = &HostSvc{w: w, a: a, c: c, Slow: 6 * time.Second}
	asrv := &jsonrpc2.Server{}
	asrv.RegisterMethod("vipnode_whitelist", c.Host, "Whitelist")
	asrv.RegisterMethod("vipnode_disconnect", c.Host, "Disconnect")
	c.Agent = &jsonrpc2.Remote{Codec: ae, Server: asrv, Client: &jsonrpc2.Client{}}
	c.PoolSide = &jsonrpc2.Remote{Codec: pe, Server: w.Srv, Client: &jsonrpc2.Client{}}
	if w.Cfg.PendingLimit {
		c.PoolSide.PendingLimit, c.PoolSide.PendingDiscard = 50, 10
	}
	c.RP = pool.Remote(c.Agent, a.Key)
	// observation: reverse calls as the agent end reads them, their replies
	// as the pool end reads them, client requests as the pool reads them and
	// replies as the pool writes them
	ae.OnRead = func(raw []byte) {
		var m struct {
			ID     json.RawMessage   `json:"id"`
			Method string            `json:"method"`
			Params []json.RawMessage `json:"params"`
		}
		if json.Unmarshal(raw, &m) == nil && m.Method != "" && len(m.Params) > 0 {
			var nid string
			json.Unmarshal(m.Params[0], &nid)
			w.mu.Lock()
			c.reqMethods[string(m.ID)] = m.Method + " " + nid
			w.mu.Unlock()
		}
	}
	pe.OnRead = func(raw []byte) {
		var m struct {
			ID     json.RawMessage `json:"id"`
			Method string          `json:"method"`
			Error  json.RawMessage `json:"error"`
		}
		if json.Unmarshal(raw, &m) != nil {
			return
		}
		seq := w.nextSeq()
		w.mu.Lock()
		defer w.mu.Unlock()
		if m.Method != "" {
			c.reqReads = append(c.reqReads, reqEv{ID: string(m.ID), Method: m.Method, Seq: seq, At: time.Now()})
			return
		}
		if mm, ok := c.reqMethods[string(m.ID)]; ok {
			parts := strings.SplitN(mm, " ", 2)
			c.acks = append(c.acks, ackEv{RPCID: string(m.ID), Method: strings.TrimPrefix(parts[0], "vipnode_"), NodeID: parts[1], OK: len(m.Error) == 0 || string(m.Error) == "null", Seq: seq})
		}
	}
	pe.OnWrite = func(raw []byte) {
		var m struct {
			ID     json.RawMessage   `json:"id"`
			Method string            `json:"method"`
			Params []json.RawMessage `json:"params"`
		}
		if json.Unmarshal(raw, &m) != nil {
			return
		}
		if m.Method != "" {
			seq := w.nextSeq()
			w.mu.Lock()
			ev := reqEv{ID: string(m.ID), Method: m.Method, Seq: seq, At: time.Now()}
			if len(m.Params) > 0 {
				json.Unmarshal(m.Params[0], &ev.Param0)
			}
			c.reverse = append(c.reverse, ev)
			w.mu.Unlock()
			return
		}
		seq := w.nextSeq()
		w.mu.Lock()
		c.replies = append(c.replies, replyEv{ID: string(m.ID), Seq: seq, At: time.Now(), Raw: raw})
		if a.IsHost && !strings.Contains(string(raw), `"error"`) {
			for _, rq := range c.reqReads {
				if rq.ID == string(m.ID) && (rq.Method == "vipnode_connect" || rq.Method == "vipnode_host") {
					c.regSeq = seq
				}
			}
		}
		w.mu.Unlock()
	}
	w.mu.Lock()
	w.Conns = append(w.Conns, c)
	w.mu.Unlock()
	w.S.GoBG("serve:"+name, func() { c.Agent.Serve() })
	w.S.GoBG("serve:P/"+name, func() {
		c.PoolSide.Serve()
		pe.Close()
		w.Pool.CloseRemote(c.PoolSide)
		w.mu.Lock()
		c.Unreg = true
		w.seq++
		c.unregSeq = w.seq
		w.mu.Unlock()
	})
	a.Conn = c
	return c
}

// ackedBetween: did this connection's host acknowledge a whitelist call for
// nodeID that the pool issued after reqSeq, with the ack read before repSeq?
func (w *World) ackedBetween(c *Conn, nodeID string, reqSeq, repSeq int64) bool {
	w.mu.Lock()
	defer w.mu.Unlock()
	issued := map[string]bool{}
	for _, r := range c.reverse {
		if r.Method == "vipnode_whitelist" && r.Seq > reqSeq && r.Seq < repSeq {
			issued[r.ID] = true
		}
	}
	for _, ak := range c.acks {
		if ak.Method == "whitelist" && ak.NodeID == nodeID && ak.OK && issued[ak.RPCID] && ak.Seq > reqSeq && ak.Seq < repSeq {
			return true
		}
	}
	return false
}

// CloseConn closes the connection from the agent's side (the pool sees EOF
// after what is in flight towards it).
func (w *World) CloseConn(c *Conn) {
	w.mu.Lock()
	if c.Closed {
		w.mu.Unlock()
		return
	}
	c.Closed = true
	w.seq++
	c.closedSeq = w.seq
	w.mu.Unlock()
	c.AgentEnd.Close()
}

// ResetConn is a connection reset (fault): both ends see it at once.
func (w *World) ResetConn(c *Conn) {
	w.mu.Lock()
	if c.Closed {
		w.mu.Unlock()
		return
	}
	c.Closed = true
	w.seq++
	c.closedSeq = w.seq
	w.mu.Unlock()
	c.AgentEnd.Reset()
}

// ------------------------------------------------------------------ requests

// Signed builds the argument list of a node-signed request with an explicit nonce.
func (a *Actor) Signed(method string, nonce int64, extra ...interface{}) []interface{} {
	args, err := request.NodeRequest{Method: method, NodeID: a.ID, Nonce: nonce, ExtraArgs: extra}.SignedArgs(a.Key)
	if err != nil {
		panic(err)
	}
	return args
}

// WSigned builds the argument list of a wallet-signed request.
func (wl *Wallet) WSigned(method string, nonce int64, extra ...interface{}) []interface{} {
	args, err := request.AddressRequest{Method: method, Address: wl.Addr, Nonce: nonce, ExtraArgs: extra}.SignedArgs(wl.Key)
	if err != nil {
		panic(err)
	}
	return args
}

// rp is the actor's signing client on its current connection (which may belong to another actor: one agent
// process can register several nodes over one connection).
func (a *Actor) rp() *pool.RemotePool {
	if a.Conn.A == a {
		return a.Conn.RP
	}
	return pool.Remote(a.Conn.Agent, a.Key)
}

func (a *Actor) ConnectReq(payout, nodeURI string) pool.ConnectRequest {
	return pool.ConnectRequest{VipnodeVersion: "sim/1", NodeInfo: ethnode.UserAgent{Version: "Geth/sim", Kind: ethnode.ParseNodeKind(a.Kind), IsFullNode: a.IsHost, Network: 0}, Payout: payout, NodeURI: nodeURI}
}

// PeerInfos builds a peer report from node ids (alternating the two shapes the agent produces).
func PeerInfos(ids []string) []ethnode.PeerInfo {
	r := make([]ethnode.PeerInfo, 0, len(ids))
	for i, id := range ids {
		p := ethnode.PeerInfo{ID: id, Name: "peer"}
		if i%2 == 1 && len(id) == 128 {
			p.ID = "hash-of-" + id[:8]
			p.Enode = "enode://" + id + "@10.9.9.9:30303"
		}
		r = append(r, p)
	}
	return r
}

// ------------------------------------------------------------------ state reading (inner store, no yields)

// Credit returns (account, credit) of a node as stored.
func (w *World) NodeCredit(id string) (store.Account, *big.Int, error) {
	b, err := w.Inner.GetNodeBalance(store.NodeID(id))
	if err != nil {
		return "", nil, err
	}
	return b.Account, new(big.Int).Set(&b.Credit), nil
}

// Spendable is deposit + credit of a node as the balance manager sees it.
func (w *World) Spendable(id string) *big.Int {
	b, err := (&SimDeposit{w: w, inner: w.Inner}).GetNodeBalance(store.NodeID(id))
	if err != nil {
		return new(big.Int)
	}
	return new(big.Int).Add(&b.Credit, &b.Deposit)
}

// LedgerSum is the conserved quantity: credit over all wallet accounts plus
// all trial balances, computed from Stats and — independently — from the
// per-node / per-account getters deduplicated by account.
func (w *World) LedgerSum() (stats, getters *big.Int, err error) {
	st, err := w.Inner.Stats()
	if err != nil {
		return nil, nil, err
	}
	stats = new(big.Int).Set(&st.TotalCredit)
	getters = new(big.Int)
	seen := map[store.Account]bool{}
	for _, a := range w.Actors {
		b, err := w.Inner.GetNodeBalance(store.NodeID(a.ID))
		if err == store.ErrUnregisteredNode {
			continue
		}
		if err != nil {
			return nil, nil, err
		}
		if b.Account != "" {
			if seen[b.Account] {
				continue
			}
			seen[b.Account] = true
		}
		getters.Add(getters, &b.Credit)
	}
	for _, wl := range w.Wallets {
		acc := store.Account(wl.Addr)
		if seen[acc] {
			continue
		}
		seen[acc] = true
		b, err := w.Inner.GetAccountBalance(acc)
		if err != nil {
			return nil, nil, err
		}
		getters.Add(getters, &b.Credit)
	}
	return stats, getters, nil
}

// Digest is the whole observable pool state apart from time-derived statistics.
func (w *World) Digest(extraIDs ...string) string {
	var b strings.Builder
	ids := []string{}
	for _, a := range w.Actors {
		ids = append(ids, a.ID)
	}
	ids = append(ids, extraIDs...)
	for _, id := range ids {
		n, err := w.Inner.GetNode(store.NodeID(id))
		if err != nil {
			fmt.Fprintf(&b, "node %s: %v\n", short10(id), err)
			continue
		}
		fmt.Fprintf(&b, "node %s: uri=%s seen=%d kind=%s host=%v payout=%s block=%d ver=%s/%s\n", short10(id), n.URI, n.LastSeen.UnixNano(), n.Kind, n.IsHost, n.Payout, n.BlockNumber, n.NodeVersion, n.VipnodeVersion)
		ps, _ := w.Inner.NodePeers(store.NodeID(id))
		fmt.Fprintf(&b, "  peers=%v\n", shortIDs(idsOfNodes(ps)))
		bal, _ := w.Inner.GetNodeBalance(store.NodeID(id))
		fmt.Fprintf(&b, "  balance=%s\n", balStr(bal))
	}
	for _, wl := range w.Wallets {
		bal, _ := w.Inner.GetAccountBalance(store.Account(wl.Addr))
		l, _ := w.Inner.GetAccountNodes(store.Account(wl.Addr))
		fmt.Fprintf(&b, "wallet %s: %s spenders=%v dep=%s\n", wl.Name, balStr(bal), shortIDs(idsOf(l)), w.Dep.dep(store.Account(wl.Addr)))
	}
	st, _ := w.Inner.Stats()
	fmt.Fprintf(&b, "stats: hosts=%d clients=%d credit=%s trials=%d\n", st.NumTotalHosts, st.NumTotalClients, st.TotalCredit.String(), st.NumTrialBalances)
	fmt.Fprintf(&b, "remotes=%d registry=%v\n", w.Pool.NumRemotes(), w.Registry())
	for _, c := range w.Conns {
		c.Host.mu.Lock()
		fmt.Fprintf(&b, "instr %s: %d\n", c.Name, len(c.Host.Got))
		c.Host.mu.Unlock()
	}
	w.Set.mu.Lock()
	fmt.Fprintf(&b, "settlements=%d attempts=%d\n", len(w.Set.Paid), w.Set.Attempts)
	w.Set.mu.Unlock()
	return b.String()
}

// Registry reads the pool's host registry (unexported map, read-only through reflection at a
// quiescent point): host name -> name of the connection the pool would instruct it on.
func (w *World) Registry() []string {
	var out []string
	v := reflect.ValueOf(w.Pool).Elem().FieldByName("remoteHosts")
	if !v.IsValid() || v.Kind() != reflect.Map {
		return []string{"<registry not readable>"}
	}
	it := v.MapRange()
	for it.Next() {
		id := it.Key().String()
		conn := "?"
		if e := it.Value(); e.Kind() == reflect.Interface && !e.IsNil() {
			ptr := e.Elem().Pointer()
			w.mu.Lock()
			for _, c := range w.Conns {
				if reflect.ValueOf(c.PoolSide).Pointer() == ptr {
					conn = c.Name
				}
			}
			w.mu.Unlock()
		}
		out = append(out, w.N(id)+"@"+conn)
	}
	sort.Strings(out)
	return out
}

// RegistryConns maps every host id in the pool's registry to the simulated connection it is registered on (nil: unknown).
func (w *World) RegistryConns() map[string]*Conn {
	out := map[string]*Conn{}
	v := reflect.ValueOf(w.Pool).Elem().FieldByName("remoteHosts")
	if !v.IsValid() || v.Kind() != reflect.Map {
		return out
	}
	it := v.MapRange()
	for it.Next() {
		id := it.Key().String()
		out[id] = nil
		if e := it.Value(); e.Kind() == reflect.Interface && !e.IsNil() {
			ptr := e.Elem().Pointer()
			w.mu.Lock()
			for _, c := range w.Conns {
				if reflect.ValueOf(c.PoolSide).Pointer() == ptr {
					out[id] = c
				}
			}
			w.mu.Unlock()
		}
	}
	return out
}

func shortIDs(ids []string) []string {
	r := make([]string, len(ids))
	for i, x := range ids {
		r[i] = short10(x)
	}
	sort.Strings(r)
	return r
}

// name of an actor id for messages
func (w *World) N(id string) string {
	if a := w.byID[id]; a != nil {
		return a.Name
	}
	return short10(id)
}

// call performs a raw RPC on the actor's current connection.
func (a *Actor) Call(ctx context.Context, result interface{}, method string, args ...interface{}) error {
	return a.Conn.Agent.Call(ctx, result, method, args...)
}
