package scen

import (
	"errors"

	"context"
	"crypto/ecdsa"
	"fmt"
	ethereum "github.com/ethereum/go-ethereum"
	"github.com/ethereum/go-ethereum/core/types"
	"github.com/ethereum/go-ethereum/event"
	"math/big"
	"strings"
	"time"

	"github.com/ethereum/go-ethereum/accounts/abi/bind"
	"github.com/ethereum/go-ethereum/accounts/abi/bind/backends"
	"github.com/ethereum/go-ethereum/core"
	"github.com/ethereum/go-ethereum/crypto"
	"github.com/vipnode/vipnode-contract/go/vipnodepool"
	"github.com/vipnode/vipnode/v2/pool/payment"
	"github.com/vipnode/vipnode/v2/pool/store"
	"github.com/vipnode/vipnode/v2/request"
	"verif/sim/kernel"
	"verif/sim/seams"
)

func init() {
	Register(&Scenario{
		Name: "c07_contract_seq", Property: "C07", MaxSteps: 4000, Quick: 120, Thorough: 6000,
		Doc:  "the production payment wiring: PaymentService over payment.ContractPayment (deposit cache fed by contract events) with the real vipnode pool contract on go-ethereum's simulated chain; wallets deposit, earn credit, withdraw repeatedly; blocks are mined when the scenario decides (a settlement is pending until then); at the end everything paid out of the contract is covered by what the withdrawing wallets deposited and earned - other depositors' money is never touched",
		Real: []string{"pool/payment PaymentService + contractPayment (cache, event subscription, OpSettle)", "vipnode pool contract (EVM bytecode)", "go-ethereum simulated backend", "store driver", "request signing"},
		Stub: []string{"no RPC layer: the payment service is called directly", "block production (a scenario decision)"},
		Run:  runC07Contract,
	})
}

// lossyChain is the simulated chain with log subscriptions that can lose their connection (as a websocket to an
// Ethereum node does).
type lossyChain struct {
	*backends.SimulatedBackend
	drop chan struct{}
}

func (b *lossyChain) SubscribeFilterLogs(ctx context.Context, q ethereum.FilterQuery, ch chan<- types.Log) (ethereum.Subscription, error) {
	inner, err := b.SimulatedBackend.SubscribeFilterLogs(ctx, q, ch)
	if err != nil {
		return nil, err
	}
	return event.NewSubscription(func(quit <-chan struct{}) error {
		defer inner.Unsubscribe()
		select {
		case <-b.drop:
			return errors.New("websocket: connection to the ethereum node lost")
		case err := <-inner.Err():
			return err
		case <-quit:
			return nil
		}
	}), nil
}

func runC07Contract(s *kernel.Sim) {
	keys := make([]*ecdsa.PrivateKey, 4) // operator, two wallets, another depositor
	for i := range keys {
		keys[i] = detKey(fmt.Sprintf("chain%d", i))
	}
	eth := new(big.Int).Exp(big.NewInt(10), big.NewInt(18), nil)
	alloc := core.GenesisAlloc{}
	for _, k := range keys {
		alloc[crypto.PubkeyToAddress(k.PublicKey)] = core.GenesisAccount{Balance: new(big.Int).Mul(eth, big.NewInt(100))}
	}
	backend := &lossyChain{SimulatedBackend: backends.NewSimulatedBackend(alloc, 8000000), drop: make(chan struct{})}
	defer backend.Close()
	dropAt := -1
	if s.Choose("sublost", 3) == 0 {
		dropAt = s.Choose("sublostat", 8)
	}
	s.AllowLeak = true // the event subscription of contractPayment lives as long as the process
	opAuth := bind.NewKeyedTransactor(keys[0])
	addr, _, contract, err := vipnodepool.DeployVipnodePool(opAuth, backend, opAuth.From)
	if err != nil {
		panic(err)
	}
	backend.Commit()
	gwei := big.NewInt(1000000000)
	unit := new(big.Int).Mul(gwei, big.NewInt(1000000)) // 0.001 ETH
	deposit := func(k *ecdsa.PrivateKey, units int64) {
		auth := bind.NewKeyedTransactor(k)
		auth.Value = new(big.Int).Mul(unit, big.NewInt(units))
		if _, err := contract.AddBalance(auth); err != nil {
			panic(err)
		}
	}
	// somebody else's money, held by the same contract
	others := new(big.Int).Mul(unit, big.NewInt(9000))
	deposit(keys[3], 9000)
	deposited := map[int]*big.Int{1: new(big.Int), 2: new(big.Int)}
	credited := map[int]*big.Int{1: new(big.Int), 2: new(big.Int)}
	for w := 1; w <= 2; w++ {
		u := int64([]int{0, 6, 20, 1000}[s.Choose("deposit", 4)])
		if u > 0 {
			deposit(keys[w], u)
			deposited[w].Add(deposited[w], new(big.Int).Mul(unit, big.NewInt(u)))
		}
	}
	backend.Commit()

	driver := []string{"memory", "badger"}[s.Choose("driver", 2)]
	var inner store.Store
	if driver == "badger" {
		inner, err = seams.OpenStore(s, "badger", seams.ScratchDir(s, "c07c"), 1)
	} else {
		inner, err = seams.OpenStore(s, "memory", "", 0)
	}
	if err != nil {
		panic(err)
	}
	defer seams.CloseStore(s, inner)
	cp, err := payment.ContractPayment(inner, addr, backend, opAuth)
	if err != nil {
		panic(err)
	}
	// exactly the wiring of pool.go
	svc := &payment.PaymentService{
		NonceStore: inner, AccountStore: inner, BalanceStore: cp,
		WithdrawFee: func(amount *big.Int) *big.Int {
			fee := big.NewInt(2500000000000000) // 0.0025 ETH
			return amount.Sub(amount, fee)
		},
		WithdrawMin: big.NewInt(5000000000000000), // 0.005 ETH
		Settle:      cp.OpSettle,
	}
	// the same 20 bytes can be written in several ways; a signature is valid for the spelling it was made for
	respellings := s.Choose("respellings", 3) == 0
	walletName := func(w int) string {
		a := crypto.PubkeyToAddress(keys[w].PublicKey)
		h := a.Hex() // the spelling the contract's events use
		if respellings {
			switch s.Choose("spelling", 3) {
			case 1:
				return strings.ToLower(h)
			case 2:
				return "0x" + strings.ToUpper(h[2:])
			}
		}
		return h
	}
	settle := func() {
		// let the event subscription deliver what a mined block produced
		for i := 0; i < 3; i++ {
			time.Sleep(time.Millisecond)
			s.Settle()
		}
	}
	contractHolds := func() *big.Int {
		b, err := backend.BalanceAt(context.Background(), addr, nil)
		if err != nil {
			panic(err)
		}
		return b
	}
	nops := 4 + s.Choose("nops", 12)
	accepted := 0
	for i := 0; i < nops && !s.Violated(); i++ {
		w := 1 + s.Choose("wallet", 2)
		time.Sleep(time.Millisecond) // nonces are clock readings
		if i == dropAt {
			close(backend.drop)
			s.Fault("contract_event_subscription_lost")
			settle()
			s.Event("#%d the event subscription loses its connection", i)
		}
		switch op := s.Choose("op", 11); {
		case op == 10: // the wallet takes its deposit out on chain by itself: forceSettle, the time lock, forceWithdraw
			auth := bind.NewKeyedTransactor(keys[w])
			if _, err := contract.ForceSettle(auth); err != nil {
				s.Event("#%d chain exit(W%d): forceSettle: %v", i, w, err)
				break
			}
			backend.Commit()
			backend.AdjustTime(8 * 24 * time.Hour)
			time.Sleep(8 * 24 * time.Hour) // the pool's clock moves with the chain's
			backend.Commit()
			if _, err := contract.ForceWithdraw(auth); err != nil {
				s.Event("#%d chain exit(W%d): forceWithdraw: %v", i, w, err)
				break
			}
			backend.Commit()
			settle()
			s.Event("#%d chain exit(W%d): deposit withdrawn on chain", i, w)
		case op <= 4: // withdraw
			nonce := time.Now().UnixNano()
			name := walletName(w)
			if respellings && s.Choose("lookfirst", 2) == 0 {
				// the unauthenticated balance query (pool_account) - it fills the deposit cache for this spelling
				svc.Account(context.Background(), name)
			}
			sig, err := request.AddressRequest{Method: "pool_withdraw", Address: name, Nonce: nonce}.Sign(keys[w])
			if err != nil {
				panic(err)
			}
			ctx, cancel := context.WithTimeout(context.Background(), 30*time.Second)
			err = svc.Withdraw(ctx, sig, name, nonce)
			cancel()
			s.Event("#%d withdraw(W%d as %s) -> %v", i, w, name[:6], err)
			if err == nil {
				accepted++
			}
		case op <= 6: // a block is mined: pending settlements and deposits take effect, events reach the pool
			backend.Commit()
			settle()
			s.Event("#%d block mined", i)
		case op == 7: // the wallet earns credit
			c := new(big.Int).Mul(unit, big.NewInt(int64(1+s.Choose("credit", 30))))
			if err := inner.AddAccountBalance(store.Account(crypto.PubkeyToAddress(keys[w].PublicKey).Hex()), c); err != nil {
				panic(err)
			}
			credited[w].Add(credited[w], c)
			s.Event("#%d credit(W%d, %s)", i, w, c)
		case op == 8: // another deposit
			u := int64(1 + s.Choose("more", 30))
			deposit(keys[w], u)
			deposited[w].Add(deposited[w], new(big.Int).Mul(unit, big.NewInt(u)))
			s.Event("#%d deposit(W%d, %d units)", i, w, u)
		default:
			time.Sleep(time.Duration(1+s.Choose("gap", 900)) * time.Second)
			s.Settle()
		}
		s.SigMix(fmt.Sprint(w, i%3))
	}
	backend.Commit()
	settle()
	backend.Commit()
	settle()
	// everything that left the contract went to the two wallets; it is covered by what they put in and earned
	covered := new(big.Int)
	total := new(big.Int).Set(others)
	for w := 1; w <= 2; w++ {
		covered.Add(covered, deposited[w])
		covered.Add(covered, credited[w])
		total.Add(total, deposited[w])
	}
	paid := new(big.Int).Sub(total, contractHolds())
	if paid.Cmp(covered) > 0 {
		s.Violate("withdraw", "withdrawals pay out more than the wallets deposited and earned: other depositors' money is gone", "%d withdrawals accepted; the two wallets deposited %s and earned %s in all, the contract paid out %s; it now holds %s although it owes the other depositor alone %s", accepted, sumOf(deposited), sumOf(credited), paid, contractHolds(), others)
	}
	s.MarkNontrivial()
	s.ProbeN("c07.contract_withdrawals_accepted", accepted)
}

func sumOf(m map[int]*big.Int) *big.Int {
	t := new(big.Int)
	for _, v := range m {
		t.Add(t, v)
	}
	return t
}
