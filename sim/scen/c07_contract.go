package scen

import (
	"errors"

	"context"
	"crypto/ecdsa"
	"fmt"
	ethereum "github.com/ethereum/go-ethereum"
	"github.com/ethereum/go-ethereum/core/types"
	"github.com/ethereum/go-ethereum/event"
	"math/big"
	"strings"
	"sync"
	"time"

	"github.com/ethereum/go-ethereum/accounts/abi/bind"
	"github.com/ethereum/go-ethereum/accounts/abi/bind/backends"
	"github.com/ethereum/go-ethereum/core"
	"github.com/ethereum/go-ethereum/crypto"
	"github.com/vipnode/vipnode-contract/go/vipnodepool"
	"github.com/vipnode/vipnode/v2/pool/payment"
	"github.com/vipnode/vipnode/v2/pool/store"
	"github.com/vipnode/vipnode/v2/request"
	"verif/sim/kernel"
	"verif/sim/seams"
)

func init() {
	Register(&Scenario{
		Name: "c07_contract_seq", Property: "C07", MaxSteps: 4000, Quick: 1000, Thorough: 25000,
		Doc:  "the production payment wiring: PaymentService over payment.ContractPayment (deposit cache fed by contract events) with the real vipnode pool contract on go-ethereum's simulated chain; wallets deposit, earn credit, withdraw repeatedly; blocks are mined when the scenario decides (a settlement is pending until then); at the end everything paid out of the contract is covered by what the withdrawing wallets deposited and earned - other depositors' money is never touched",
		Real: []string{"pool/payment PaymentService + contractPayment (cache, event subscription, OpSettle)", "vipnode pool contract (EVM bytecode)", "go-ethereum simulated backend", "store driver", "request signing"},
		Stub: []string{"no RPC layer: the payment service is called directly", "block production (a scenario decision)"},
		Run:  runC07Contract,
	})
}

// lossyChain is the simulated chain as a pool sees it through its connection to an Ethereum node: log subscriptions
// can lose their connection (as a websocket does), establishing a new one can take time, events can be slow to
// arrive, and so can the answer to a call.
type lossyChain struct {
	*backends.SimulatedBackend
	drop chan struct{}
	subs int
	// resubGate, when set, is what every subscription after the first waits for before it exists
	resubGate chan struct{}
	// eventGate, when set, holds every event back until it is closed
	eventGate chan struct{}
	// callGate, when set, holds the answer of the next pending-state call back until it is closed
	callGate chan struct{}
	mu       sync.Mutex
	// noPendingState: see PendingCallContract
	noPendingState bool
	// loseAnswer: the next submitted transaction reaches the node, its acknowledgement does not reach the pool
	loseAnswer bool
}

func (b *lossyChain) gate(which string) chan struct{} {
	b.mu.Lock()
	defer b.mu.Unlock()
	switch which {
	case "resub":
		return b.resubGate
	case "event":
		return b.eventGate
	}
	g := b.callGate
	b.callGate = nil // one call only
	return g
}

func (b *lossyChain) setGate(which string, g chan struct{}) {
	b.mu.Lock()
	defer b.mu.Unlock()
	switch which {
	case "resub":
		b.resubGate = g
	case "event":
		b.eventGate = g
	default:
		b.callGate = g
	}
}

// SendTransaction passes the transaction on; when armed, the node gets it but the answer never reaches the caller.
func (b *lossyChain) SendTransaction(ctx context.Context, tx *types.Transaction) error {
	err := b.SimulatedBackend.SendTransaction(ctx, tx)
	b.mu.Lock()
	lose := b.loseAnswer
	b.loseAnswer = false
	b.mu.Unlock()
	if err == nil && lose {
		return errors.New("read tcp 10.0.0.5:51234->10.0.0.9:8546: read: connection reset by peer")
	}
	return err
}

func (b *lossyChain) PendingCallContract(ctx context.Context, call ethereum.CallMsg) ([]byte, error) {
	var out []byte
	var err error
	if b.noPendingState {
		// a node that answers "pending" calls from its latest block (nodes that do not mine, hosted providers)
		out, err = b.SimulatedBackend.CallContract(ctx, call, nil)
	} else {
		out, err = b.SimulatedBackend.PendingCallContract(ctx, call)
	}
	return out, err
}

// CallContract: when armed, the answer to the next call against the mined state is held back (a balance query reads
// the pending state first and the mined state second: what it brings back is then old in both).
func (b *lossyChain) CallContract(ctx context.Context, call ethereum.CallMsg, blockNumber *big.Int) ([]byte, error) {
	out, err := b.SimulatedBackend.CallContract(ctx, call, blockNumber)
	if g := b.gate("call"); g != nil {
		select {
		case <-g:
		case <-ctx.Done():
		}
	}
	return out, err
}

func (b *lossyChain) SubscribeFilterLogs(ctx context.Context, q ethereum.FilterQuery, ch chan<- types.Log) (ethereum.Subscription, error) {
	b.mu.Lock()
	b.subs++
	again := b.subs > 1
	b.mu.Unlock()
	if g := b.gate("resub"); again && g != nil {
		select {
		case <-g:
		case <-ctx.Done():
			return nil, ctx.Err()
		}
	}
	mid := make(chan types.Log, 16)
	inner, err := b.SimulatedBackend.SubscribeFilterLogs(ctx, q, mid)
	if err != nil {
		return nil, err
	}
	b.mu.Lock()
	drop := b.drop
	b.mu.Unlock()
	return event.NewSubscription(func(quit <-chan struct{}) error {
		defer inner.Unsubscribe()
		deliver := func(l types.Log) bool {
			if g := b.gate("event"); g != nil {
				select {
				case <-g:
				case <-quit:
					return false
				}
			}
			select {
			case ch <- l:
				return true
			case <-quit:
				return false
			}
		}
		for {
			// (what has arrived is passed on before anything else is looked at: a select among several ready
			// cases would be a coin the simulator does not own)
			select {
			case l := <-mid:
				if !deliver(l) {
					return nil
				}
				continue
			default:
			}
			select {
			case l := <-mid:
				if !deliver(l) {
					return nil
				}
			case <-drop:
				return errors.New("websocket: connection to the ethereum node lost")
			case err := <-inner.Err():
				return err
			case <-quit:
				return nil
			}
		}
	}), nil
}

func runC07Contract(s *kernel.Sim) {
	keys := make([]*ecdsa.PrivateKey, 4) // operator, two wallets, another depositor
	for i := range keys {
		keys[i] = detKey(fmt.Sprintf("chain%d", i))
	}
	eth := new(big.Int).Exp(big.NewInt(10), big.NewInt(18), nil)
	alloc := core.GenesisAlloc{}
	for _, k := range keys {
		alloc[crypto.PubkeyToAddress(k.PublicKey)] = core.GenesisAccount{Balance: new(big.Int).Mul(eth, big.NewInt(100))}
	}
	backend := &lossyChain{SimulatedBackend: backends.NewSimulatedBackend(alloc, 8000000), drop: make(chan struct{})}
	pendingDeposit := map[int]*big.Int{1: new(big.Int), 2: new(big.Int)} // submitted, not mined yet
	if s.Choose("nopending", 4) == 0 {
		backend.noPendingState = true
		s.Fault("node_without_a_pending_state")
	}
	defer backend.Close()
	dropAt := -1
	if s.Choose("sublost", 3) == 0 {
		dropAt = s.Choose("sublostat", 8)
	}

	s.AllowLeak = true // the event subscription of contractPayment lives as long as the process
	opAuth := bind.NewKeyedTransactor(keys[0])
	addr, _, contract, err := vipnodepool.DeployVipnodePool(opAuth, backend, opAuth.From)
	if err != nil {
		panic(err)
	}
	backend.Commit()
	gwei := big.NewInt(1000000000)
	unit := new(big.Int).Mul(gwei, big.NewInt(1000000)) // 0.001 ETH
	deposit := func(k *ecdsa.PrivateKey, units int64) {
		auth := bind.NewKeyedTransactor(k)
		auth.Value = new(big.Int).Mul(unit, big.NewInt(units))
		if _, err := contract.AddBalance(auth); err != nil {
			panic(err)
		}
	}
	// somebody else's money, held by the same contract
	others := new(big.Int).Mul(unit, big.NewInt(9000))
	deposit(keys[3], 9000)
	deposited := map[int]*big.Int{1: new(big.Int), 2: new(big.Int)}
	credited := map[int]*big.Int{1: new(big.Int), 2: new(big.Int)}
	for w := 1; w <= 2; w++ {
		u := int64([]int{0, 6, 20, 1000}[s.Choose("deposit", 4)])
		if u > 0 {
			deposit(keys[w], u)
			deposited[w].Add(deposited[w], new(big.Int).Mul(unit, big.NewInt(u)))
		}
	}
	backend.Commit()
	// (the chain's own event machinery comes to rest before anybody subscribes: whether the pool's subscription still
	// sees the blocks mined so far must not be left to the Go scheduler)
	for i := 0; i < 3; i++ {
		time.Sleep(time.Millisecond)
		s.Settle()
	}

	// (the persistent driver's background tickers make the days of simulated time that pass here expensive; what this
	// world is about happens above the store, one run in four keeps the pool's books in it)
	driver := []string{"memory", "memory", "memory", "badger"}[s.Choose("driver", 4)]
	var inner store.Store
	if driver == "badger" {
		inner, err = seams.OpenStore(s, "badger", seams.ScratchDir(s, "c07c"), 1)
	} else {
		inner, err = seams.OpenStore(s, "memory", "", 0)
	}
	if err != nil {
		panic(err)
	}
	defer seams.CloseStore(s, inner)
	cp, err := payment.ContractPayment(inner, addr, backend, opAuth)
	if err != nil {
		panic(err)
	}
	if s.Choose("nosigner", 16) == 0 {
		// an operator account that cannot sign (key not unlocked): every settlement fails before it is sent
		opAuth.Signer = nil
		s.Fault("operator_cannot_sign")
	}
	// exactly the wiring of pool.go
	svc := &payment.PaymentService{
		NonceStore: inner, AccountStore: inner, BalanceStore: cp,
		WithdrawFee: func(amount *big.Int) *big.Int {
			fee := big.NewInt(2500000000000000) // 0.0025 ETH
			return amount.Sub(amount, fee)
		},
		WithdrawMin: big.NewInt(5000000000000000), // 0.005 ETH
		Settle:      cp.OpSettle,
	}
	// the same 20 bytes can be written in several ways; a signature is valid for the spelling it was made for
	respellings := s.Choose("respellings", 3) == 0
	walletName := func(w int) string {
		a := crypto.PubkeyToAddress(keys[w].PublicKey)
		h := a.Hex() // the spelling the contract's events use
		if respellings {
			switch s.Choose("spelling", 3) {
			case 1:
				return strings.ToLower(h)
			case 2:
				return "0x" + strings.ToUpper(h[2:])
			}
		}
		return h
	}
	settle := func() {
		// let the event subscription deliver what a mined block produced
		for i := 0; i < 3; i++ {
			time.Sleep(time.Millisecond)
			s.Settle()
		}
	}
	contractHolds := func() *big.Int {
		b, err := backend.BalanceAt(context.Background(), addr, nil)
		if err != nil {
			panic(err)
		}
		return b
	}
	mine := func() {
		backend.Commit()
		pendingDeposit[1].SetInt64(0)
		pendingDeposit[2].SetInt64(0)
	}
	nops := 4 + s.Choose("nops", 12)
	accepted := 0
	var slowAnswer chan struct{}
	withdraw := func(i, w int, lookFirst bool) {
		nonce := time.Now().UnixNano()
		name := walletName(w)
		if lookFirst {
			// the unauthenticated balance query (pool_account) - it fills the deposit cache
			svc.Account(context.Background(), name)
		}
		sig, err := request.AddressRequest{Method: "pool_withdraw", Address: name, Nonce: nonce}.Sign(keys[w])
		if err != nil {
			panic(err)
		}
		ctx, cancel := context.WithTimeout(context.Background(), 30*time.Second)
		func() {
			defer func() {
				if r := recover(); r != nil {
					err = fmt.Errorf("panic: %v", r)
					s.Violate("process_crash", "pool_withdraw panics", "#%d withdraw(W%d): %v (the request's goroutine is not recovered by anybody: the pool process dies, after the credit was debited)", i, w, r)
				}
			}()
			err = svc.Withdraw(ctx, sig, name, nonce)
		}()
		cancel()
		s.Event("#%d withdraw(W%d as %s) -> %v", i, w, name[:6], err)
		if err == nil {
			accepted++
			if s.Choose("lookafter", 2) == 0 {
				// "leaves the wallet with nothing further to withdraw": what the pool says about the wallet right
				// after it has paid it out (nothing else has happened on the chain or in the pool in between)
				r, lerr := svc.Account(context.Background(), name)
				if lerr != nil {
					s.Event("#%d pool_account(W%d) after the withdrawal -> %v", i, w, lerr)
				} else if r.Balance.Deposit.Sign() != 0 || r.Balance.Credit.Sign() != 0 {
					s.Violate("deposit_view", "a wallet that has just been paid out still has a balance on the pool's books", "#%d withdraw(W%d) was accepted and settled; asked straight afterwards the pool says deposit %s, credit %s: it is withdrawable (or spendable) again", i, w, &r.Balance.Deposit, &r.Balance.Credit)
				}
			}
		}
	}
	// things that take time: each is open for a few operations
	resubOpensAt, eventsFlowAt, answerAt := -1, -1, -1
	hot, hotUntil := 0, -1
	lostOnce := false // the subscription has lost its connection once (one loss per history)
	downLooked := 0   // the wallet somebody looked at while the pool had no subscription
	askNext := 0      // the wallet that asks for its money next
	mineNext := false // the next thing that happens is a block
	openGates := func(i int, all bool) {
		if resubOpensAt >= 0 && (all || i >= resubOpensAt) {
			close(backend.gate("resub"))
			backend.setGate("resub", nil)
			resubOpensAt = -1
			settle()
			s.Event("#%d the new event subscription is established", i)
		}
		if eventsFlowAt >= 0 && (all || i >= eventsFlowAt) {
			close(backend.gate("event"))
			backend.setGate("event", nil)
			eventsFlowAt = -1
			settle()
			s.Event("#%d delayed events arrive", i)
		}
		if answerAt >= 0 && (all || i >= answerAt) {
			close(slowAnswer)
			answerAt = -1
			settle()
			s.Event("#%d the slow balance query gets its answer", i)
		}
	}
	for i := 0; i < nops && !s.Violated(); i++ {
		w := 1 + s.Choose("wallet", 2)
		if hot > 0 && i <= hotUntil && s.Choose("hotwallet", 3) != 0 {
			w = hot // the wallet something slow is (or just was) going on with stays in the picture
		}
		time.Sleep(time.Millisecond) // nonces are clock readings
		openGates(i, false)
		if (dropAt > i || dropAt == -1 && !lostOnce) && (answerAt >= 0 || eventsFlowAt >= 0) && s.Choose("losenow", 3) == 0 {
			// connections fail while things are in flight on them, not while they are idle
			dropAt = i
		}
		if i == dropAt {
			lostOnce = true
			downLooked = 0
			if g := s.Choose("resubslow", 4); g > 0 {
				// the new subscription takes a while (reconnect): it exists g operations from now
				backend.setGate("resub", make(chan struct{}))
				resubOpensAt = i + g
			}
			close(backend.drop)
			if s.Choose("nodegone", 3) != 0 {
				// the connection can be established again (otherwise every new subscription fails at once, and
				// the pool falls back to a cache that expires)
				backend.mu.Lock()
				backend.drop = make(chan struct{})
				backend.mu.Unlock()
			}
			s.Fault("contract_event_subscription_lost")
			settle()
			s.Event("#%d the event subscription loses its connection (new one in %d operations)", i, resubOpensAt-i)
		}
		op := s.Choose("op", 20)
		if op >= 18 {
			op = op - 2 // 16: pending transactions dropped, 17: acknowledgement lost
		} else if op >= 14 {
			op = 12 + (op-14)/2 // slow answers and delayed events are what this world is about
		}
		if hot > 0 && i <= hotUntil && s.Choose("hotop", 3) == 0 {
			op = 0 // ... and it asks for its money
		}
		if i == dropAt || op == 12 || op == 13 {
			hot, hotUntil = w, i+6
		}
		if mineNext {
			op, mineNext = 5, false
		} else if askNext > 0 {
			op, w, askNext = 0, askNext, 0
		} else if eventsFlowAt >= 0 && hot > 0 && s.Choose("whileheld", 4) == 0 {
			// while events are on their way: the wallet takes its deposit out on chain (the event that says so is
			// among those that have not arrived) - and, being the wallet in the picture, asks the pool for it too
			op, w = 10, hot
			if s.Choose("asktoo", 2) == 0 {
				askNext = hot
			}
		}
		if resubOpensAt >= 0 && s.Choose("whiledown", 2) == 1 {
			// while the pool has no subscription: requests that look at a wallet, and then things that change on chain
			// for the wallet that was looked at
			if downLooked == 0 {
				op, downLooked = 15, w
			} else {
				op, w = []int{10, 14, 14, 15}[s.Choose("whiledown.op", 4)], downLooked
			}
		}
		switch {
		case op == 14: // a deposit, mined at once
			u := int64(1 + s.Choose("more", 30))
			deposit(keys[w], u)
			deposited[w].Add(deposited[w], new(big.Int).Mul(unit, big.NewInt(u)))
			mine()
			settle()
			s.Event("#%d deposit(W%d, %d units), mined", i, w, u)
		case op == 15: // somebody looks at the wallet (pool_account; every keep-alive of one of its nodes does the same)
			r, err := svc.Account(context.Background(), walletName(w))
			if err == nil {
				s.Event("#%d pool_account(W%d) -> deposit %s", i, w, &r.Balance.Deposit)
			} else {
				s.Event("#%d pool_account(W%d) -> %v", i, w, err)
			}
		case op == 11: // a deposit that is never mined (replaced or dropped by its sender) while somebody looks at the wallet
			mine()
			settle()
			auth := bind.NewKeyedTransactor(keys[w])
			auth.Value = new(big.Int).Mul(unit, big.NewInt(int64(10+s.Choose("ghost", 30))))
			if _, err := contract.AddBalance(auth); err != nil {
				panic(err)
			}
			svc.Account(context.Background(), walletName(w))
			backend.Rollback()
			s.Fault("pending_deposit_never_mined")
			s.Event("#%d W%d: deposit of %s submitted, looked at while pending, never mined", i, w, auth.Value)
		case op == 12: // the answer to one balance query is slow
			if answerAt >= 0 {
				break
			}
			slowAnswer = make(chan struct{})
			backend.setGate("call", slowAnswer)
			name := walletName(w)
			go svc.Account(context.Background(), name)
			s.Settle()
			if backend.gate("call") != nil {
				// nothing was asked of the chain (the deposit was cached): no slow answer outstanding
				close(slowAnswer)
				break
			}
			backend.setGate("call", nil)
			answerAt = i + 1 + s.Choose("answerin", 6)
			s.Fault("slow_answer_to_a_balance_query")
			s.Event("#%d pool_account(W%d): the chain's answer is on its way", i, w)
		case op == 13: // events are slow to arrive
			if eventsFlowAt >= 0 {
				break
			}
			backend.setGate("event", make(chan struct{}))
			eventsFlowAt = i + 1 + s.Choose("eventsin", 3)
			s.Fault("contract_events_delayed")
			if s.Choose("eventof", 2) == 1 {
				// ... starting with the event of a deposit that is mined now
				u := int64(1 + s.Choose("more", 30))
				deposit(keys[w], u)
				deposited[w].Add(deposited[w], new(big.Int).Mul(unit, big.NewInt(u)))
				mine()
				settle()
				s.Event("#%d deposit(W%d, %d units), mined; events are held up on their way to the pool", i, w, u)
			} else {
				s.Event("#%d events are held up on their way to the pool", i)
			}
		case op == 10: // the wallet takes its deposit out on chain by itself: forceSettle, the time lock, forceWithdraw
			auth := bind.NewKeyedTransactor(keys[w])
			if _, err := contract.ForceSettle(auth); err != nil {
				s.Event("#%d chain exit(W%d): forceSettle: %v", i, w, err)
				break
			}
			mine()
			backend.AdjustTime(8 * 24 * time.Hour)
			time.Sleep(8 * 24 * time.Hour) // the pool's clock moves with the chain's
			mine()
			if _, err := contract.ForceWithdraw(auth); err != nil {
				s.Event("#%d chain exit(W%d): forceWithdraw: %v", i, w, err)
				break
			}
			mine()
			settle()
			s.Event("#%d chain exit(W%d): deposit withdrawn on chain", i, w)
		case op <= 4: // withdraw
			before := accepted
			withdraw(i, w, respellings && s.Choose("lookfirst", 2) == 0)
			if accepted > before && answerAt >= 0 && s.Choose("minenext", 2) == 0 {
				// the settlement is mined while the chain's answer to an earlier question is still on its way
				mineNext = true
			}
		case op <= 6: // a block is mined: pending settlements and deposits take effect, events reach the pool
			mine()
			settle()
			s.Event("#%d block mined", i)
		case op == 7: // the wallet earns credit
			c := new(big.Int).Mul(unit, big.NewInt(int64(1+s.Choose("credit", 30))))
			if err := inner.AddAccountBalance(store.Account(crypto.PubkeyToAddress(keys[w].PublicKey).Hex()), c); err != nil {
				panic(err)
			}
			credited[w].Add(credited[w], c)
			s.Event("#%d credit(W%d, %s)", i, w, c)
		case op == 8: // another deposit
			u := int64(1 + s.Choose("more", 30))
			deposit(keys[w], u)
			deposited[w].Add(deposited[w], new(big.Int).Mul(unit, big.NewInt(u)))
			pendingDeposit[w].Add(pendingDeposit[w], new(big.Int).Mul(unit, big.NewInt(u)))
			s.Event("#%d deposit(W%d, %d units)", i, w, u)
		case op == 17: // the acknowledgement of the next submitted transaction is lost on the way back (the node has the transaction)
			backend.mu.Lock()
			backend.loseAnswer = true
			backend.mu.Unlock()
			s.Fault("transaction_submitted_acknowledgement_lost")
			withdraw(i, w, false)
			backend.mu.Lock()
			backend.loseAnswer = false
			backend.mu.Unlock()
		case op == 16: // the node forgets what it had not mined yet (restart, eviction from its transaction pool)
			backend.Rollback()
			for k := 1; k <= 2; k++ {
				deposited[k].Sub(deposited[k], pendingDeposit[k]) // those deposits never happened
				pendingDeposit[k].SetInt64(0)
			}
			s.Fault("pending_transactions_dropped_by_the_node")
			s.Event("#%d the node drops its pending transactions", i)
		default:
			time.Sleep(time.Duration(1+s.Choose("gap", 900)) * time.Second)
			s.Settle()
		}
		s.SigMix(fmt.Sprint(w, i%3))
	}
	// whatever was slow has arrived; every history can be continued by the wallets asking for their money once more
	openGates(nops, true)
	mine()
	settle()
	if s.Choose("finalsweep", 2) != 0 {
		// (not always: a withdrawal makes the pool forget what it has cached for the wallet, and what the pool says
		// about wallets nobody withdraws from is judged below, too)
		for w := 1; w <= 2 && !s.Violated(); w++ {
			time.Sleep(time.Millisecond)
			withdraw(nops+w, w, false)
		}
	}
	mine()
	settle()
	mine()
	settle()
	// once nothing is in flight any more the pool's books and the contract agree about every deposit (a cache that
	// is allowed to be ten minutes old has had its ten minutes)
	time.Sleep(11 * time.Minute)
	settle()
	for w := 1; w <= 2 && !s.Violated(); w++ {
		addr := crypto.PubkeyToAddress(keys[w].PublicKey)
		onchain, err := contract.Accounts(nil, addr)
		if err != nil {
			panic(err)
		}
		if onchain.TimeLocked.Sign() != 0 {
			continue
		}
		r, err := svc.Account(context.Background(), addr.Hex())
		if err != nil {
			s.Violate("deposit_view", "the pool cannot tell a wallet's balance although nothing is in flight", "W%d: pool_account: %v", w, err)
			break
		}
		if r.Balance.Deposit.Cmp(onchain.Balance) != 0 {
			s.Violate("deposit_view", "the pool's books and the contract disagree about a deposit although nothing is in flight", "W%d: the contract holds a deposit of %s, the pool says %s - and nothing is left that would correct it (every block is mined, every event delivered, every answer in; eleven minutes have passed)", w, onchain.Balance, &r.Balance.Deposit)
		}
	}
	// everything that left the contract went to the two wallets; it is covered by what they put in and earned
	covered := new(big.Int)
	total := new(big.Int).Set(others)
	for w := 1; w <= 2; w++ {
		covered.Add(covered, deposited[w])
		covered.Add(covered, credited[w])
		total.Add(total, deposited[w])
	}
	paid := new(big.Int).Sub(total, contractHolds())
	if paid.Cmp(covered) > 0 {
		s.Violate("withdraw", "withdrawals pay out more than the wallets deposited and earned: other depositors' money is gone", "%d withdrawals accepted; the two wallets deposited %s and earned %s in all, the contract paid out %s; it now holds %s although it owes the other depositor alone %s", accepted, sumOf(deposited), sumOf(credited), paid, contractHolds(), others)
	}
	s.MarkNontrivial()
	s.ProbeN("c07.contract_withdrawals_accepted", accepted)
}

func sumOf(m map[int]*big.Int) *big.Int {
	t := new(big.Int)
	for _, v := range m {
		t.Add(t, v)
	}
	return t
}
