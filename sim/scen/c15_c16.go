package scen

import (
	"context"
	"encoding/base64"
	"encoding/json"
	"fmt"
	"math/big"
	"os"
	"runtime"
	"sort"
	"strings"
	"sync"
	"sync/atomic"
	"time"

	"github.com/vipnode/vipnode/v2/agent"
	"github.com/vipnode/vipnode/v2/ethnode"
	"github.com/vipnode/vipnode/v2/jsonrpc2"
	"github.com/vipnode/vipnode/v2/pool"
	"github.com/vipnode/vipnode/v2/pool/status"
	"verif/sim/kernel"
	"verif/sim/seams"
)

func init() {
	Register(&Scenario{
		Name: "c15_hostile_pool", Property: "C15", MaxSteps: 30000, Quick: 500, Thorough: 40000,
		Doc:  "a hostile peer, concurrent with honest sessions on other connections, sends to every registered endpoint of the pool, payment and status services: requests with missing / null / object / scalar params, wrong arity and types, duplicate and non-scalar ids, signatures of length 0..70 and non-base64 / non-hex, odd node ids, node URIs and peer descriptions, negative and huge counts (also correctly signed by its own key), raw garbage and truncated JSON; and, registered as a host, hostile replies to the pool's whitelist calls (no result/error, unknown id, duplicate id, wrong types).  The process must survive, every well-formed request gets exactly one reply with its id and exactly one of result/error, the hostile connection still answers vipnode_ping after hostile requests, honest sessions complete",
		Real: worldReal, Stub: worldStub,
		Run: runC15Pool,
	})
	Register(&Scenario{
		Name: "c15_hostile_agent", Property: "C15", MaxSteps: 20000, Quick: 500, Thorough: 40000,
		Doc:  "a real agent.Agent (pool.RemotePool over real jsonrpc2.Remote) connected to a hostile pool that answers connect / update / peer with replies without result or error, results of the wrong shape, odd peer descriptions and node URIs, unknown and duplicate ids, and sends hostile requests to the agent's reverse service; the agent must not panic and must stay stoppable",
		Real: []string{"agent.Agent", "pool.RemotePool", "jsonrpc2 Remote/Server/Client", "ethnode.ParseNodeURI"}, Stub: []string{"connection (SimCodec)", "Ethereum node (SimEthNode)", "the hostile pool"},
		Run: runC15Agent,
	})
	Register(&Scenario{
		Name: "c16_registration", Property: "C16", MaxSteps: 4000, Quick: 600, Thorough: 40000,
		Doc:  "servers built from a family of receiver types x random prefixes x random allow-lists, and the production registration (vipnode_ with its allow-list, pool_ payment and status services): every registered name, case variants, unexported and helper methods, names of other prefixes; for each registered method every arity 0..n+2, per-position JSON type substitutions, null and omitted params; the callable set must be exactly {prefix + lower-first(name)} within the allow-list, unknown names get -32601, wrong arity or type gets -32602 and the method does not run",
		Real: []string{"jsonrpc2.Server.Register / RegisterMethod / Handle", "jsonrpc2 parsePositionalArguments", "jsonrpc2.Remote transport path", "production registrations (as in pool.go)"}, Stub: []string{"connection (SimCodec); the schedule, clock and fault dimensions are inert here"},
		Run: runC16,
	})
}

// ------------------------------------------------------------------ hostile request catalogue

var poolEndpoints = []string{"vipnode_connect", "vipnode_update", "vipnode_peer", "vipnode_host", "vipnode_client", "vipnode_ping", "pool_addNode", "pool_withdraw", "pool_account", "pool_status"}

func hostileSig(s *kernel.Sim) string {
	n := s.Choose("siglen", 72)
	raw := make([]byte, n)
	for i := range raw {
		raw[i] = byte(7*i + n)
	}
	switch s.Choose("sigenc", 5) {
	case 0:
		return base64.StdEncoding.EncodeToString(raw)
	case 1:
		return fmt.Sprintf("%x", raw)
	case 2:
		return "0x" + fmt.Sprintf("%x", raw)
	case 3:
		return "%%% not an encoding %%%"
	default:
		return ""
	}
}

func hostileID(s *kernel.Sim, w *World) string {
	switch s.Choose("hid", 8) {
	case 0:
		return ""
	case 1:
		return "zz"
	case 2:
		return strings.Repeat("f", 128) // well-formed hex, not a curve point
	case 3:
		return strings.Repeat("0", 128)
	case 4:
		return w.Actors[0].ID[:127]
	case 5:
		return "0x00000000000000000000000000000000000000aa" // wallet style
	case 6:
		return strings.Repeat("ab", 300)
	default:
		return w.Actors[s.Choose("hidactor", len(w.Actors))].ID
	}
}

func hostileValue(s *kernel.Sim) interface{} {
	switch s.Choose("hval", 12) {
	case 0:
		return nil
	case 1:
		return 42
	case 2:
		return -1
	case 3:
		return "str"
	case 4:
		return true
	case 5:
		return []interface{}{}
	case 6:
		return map[string]interface{}{}
	case 7:
		return 1.5e300
	case 8:
		return map[string]interface{}{"peers_info": []interface{}{nil, 1, map[string]interface{}{"id": 5, "enode": []int{1}}}, "num": "many", "kind": 3, "node_uri": 9, "node_info": "x", "payout": []int{}}
	case 9:
		return map[string]interface{}{"peers_info": []interface{}{map[string]interface{}{"id": "", "enode": "enode://short"}, map[string]interface{}{"enode": strings.Repeat("e", 140)}}, "block_number": -5}
	case 10:
		return map[string]interface{}{"num": -9223372036854775808, "kind": strings.Repeat("k", 5000)}
	default:
		return map[string]interface{}{"node_uri": "enode://%zz@[::", "node_info": map[string]interface{}{"kind": 99999, "is_full_node": true, "network": -1}, "payout": strings.Repeat("0x", 50)}
	}
}

// hostileRequest builds one hostile but structurally valid JSON-RPC request (raw JSON) and says
// whether a reply with the same id is due.
func hostileRequest(s *kernel.Sim, w *World, hostile *Actor, idn int) (raw string, id string, expectReply bool, desc string) {
	method := poolEndpoints[s.Choose("hmethod", len(poolEndpoints))]
	id = fmt.Sprint(idn)
	switch s.Choose("hidform", 8) {
	case 0:
		id = fmt.Sprintf("%q", fmt.Sprintf("s%d", idn))
	case 1:
		id = fmt.Sprintf("[%d]", idn) // non-scalar id
	case 2:
		id = fmt.Sprintf("{\"k\":%d}", idn)
	case 3:
		id = fmt.Sprintf("%d.5", idn)
	}
	var params string
	switch k := s.Choose("hparams", 12); {
	case k == 0:
		params = ""
	case k == 1:
		params = "null"
	case k == 2:
		params = "{}"
	case k == 3:
		params = "\"str\""
	case k == 4:
		params = "[]"
	case k == 5:
		params = "7"
	case k <= 8: // (sig, identity, nonce, arg) with hostile components
		args := []interface{}{hostileSig(s), hostileID(s, w), time.Now().UnixNano(), hostileValue(s)}
		switch s.Choose("hnonce", 5) {
		case 0:
			args[2] = "nonce"
		case 1:
			args[2] = -1
		case 2:
			args[2] = 1.5
		case 3:
			args[2] = nil
		}
		n := s.Choose("harity", 7)
		for len(args) < n {
			args = append(args, hostileValue(s))
		}
		args = args[:n]
		b, _ := json.Marshal(args)
		params = string(b)
	case k <= 10: // correctly signed by the hostile peer's own key, hostile content
		var arg interface{}
		nonce := time.Now().UnixNano() + int64(idn)
		switch method {
		case "vipnode_peer":
			arg = pool.PeerRequest{Num: []int{-1, -1 << 31, 1 << 31, 1<<62 - 1, 1<<63 - 1, 0, 1 << 40}[s.Choose("hnum", 7)], Kind: []string{"", "geth", strings.Repeat("z", 300)}[s.Choose("hkind", 3)]}
		case "vipnode_client":
			arg = pool.ClientRequest{NumHosts: []int{-1, 1 << 31, 1<<63 - 1, 1 << 40}[s.Choose("hnum", 4)], Kind: "geth"}
		case "vipnode_update":
			// peer descriptions with enode strings of every length around the id boundary (8+128)
			pi := []ethnode.PeerInfo{{ID: ""}, {ID: "x", Enode: "enode://"}, {Enode: strings.Repeat("q", 120+s.Choose("henode", 30))}, {ID: hostile.ID}, {ID: w.Actors[0].ID},
				{ID: "y", Enode: "enode://" + strings.Repeat("a", s.Choose("henode2", 140))},
				// ... and enode strings that no URL parser takes
				{ID: "z", Enode: []string{"enode://%zz@1.2.3.4:30303", "enode://" + hostile.ID + "@[::1:30303", "http://" + hostile.ID + "@1.2.3.4:30303", "enode://" + hostile.ID + "@1.2.3.4:30303\x7f", "enode://" + hostile.ID + "@host:port", ":"}[s.Choose("henode3", 6)]}}
			arg = pool.UpdateRequest{PeerInfo: pi[s.Choose("hpeers0", 3):], BlockNumber: 1<<64 - 1}
		case "vipnode_host":
			arg = pool.HostRequest{Kind: "geth", NodeURI: []string{"::::", "enode://@", "enode://" + hostile.ID + "@[::1", "http://x", strings.Repeat("a", 3000)}[s.Choose("huri", 5)]}
		default:
			method = "vipnode_connect"
			req := hostile.ConnectReq(strings.Repeat("p", s.Choose("hpayout", 200)), []string{"::::", "enode://@", "enode://" + hostile.ID + "@[::1", "%zz", "enode://" + hostile.ID + "@h:99999999"}[s.Choose("huri", 5)])
			req.NodeInfo.IsFullNode = s.Choose("hfull", 2) == 1
			arg = req
		}
		b, _ := json.Marshal(hostile.Signed(method, nonce, arg))
		params = string(b)
	default:
		b, _ := json.Marshal([]interface{}{hostileValue(s), hostileValue(s)})
		params = string(b)
	}
	if params == "" {
		raw = fmt.Sprintf(`{"jsonrpc":"2.0","id":%s,"method":%q}`, id, method)
	} else {
		raw = fmt.Sprintf(`{"jsonrpc":"2.0","id":%s,"method":%q,"params":%s}`, id, method, params)
	}
	p := params
	if len(p) > 60 {
		p = p[:60] + "..."
	}
	return raw, id, true, method + " " + p
}

var garbage = []string{"", "{", "}", "[1,2", "\x00\x01\x02", "null", "true", "[]", "\"str\"", "{\"jsonrpc\":\"2.0\",\"id\":1,\"method\":", "{\"id\":1,\"method\":5}", "{\"method\":\"vipnode_ping\",\"params\":[}", strings.Repeat("[", 5000), "{\"jsonrpc\":\"2.0\",\"id\":1,\"method\":\"vipnode_ping\"}{\"jsonrpc\":"}

// ------------------------------------------------------------------ C15 pool side

func runC15Pool(s *kernel.Sim) {
	cfg := WorldCfg{Driver: []string{"memory", "badger"}[s.Choose("driver", 2)], Hosts: 2, Clients: 2, Wallets: 1}
	cfg.Interval, cfg.Price = time.Minute, big.NewInt(1000)
	cfg.MaxRequestHosts = []int{0, 0, 3}[s.Choose("maxhosts", 3)]
	cfg.PendingLimit = true
	w := NewWorld(s, cfg)
	// status service, as pool.go registers it
	dash := &status.PoolStatus{Store: w.YS, TimeStarted: time.Now(), Version: "sim", CacheDuration: time.Minute}
	if err := w.Srv.Register("pool_", dash); err != nil {
		panic(err)
	}
	s.IdleSteps = []time.Duration{time.Millisecond, 100 * time.Millisecond, time.Second, 3 * time.Second}
	hostile := w.AddActor("evil", true, "geth")
	hostileHost := s.Choose("hostilehost", 2) == 1
	d := NewDirector(w) // honest sessions; C15 judges only survival, replies and liveness
	honestDone := false
	s.SetYield("op", 3)
	s.Go("director", func() {
		defer func() { honestDone = true }()
		for _, a := range w.Actors[:4] {
			d.Connect(a, "", "", false)
		}
		for i := 0; i < 6 && !s.Violated(); i++ {
			s.Gate("director")
			c := w.Actors[2+i%2]
			if _, err := d.Update(c, []string{w.Actors[0].ID}, uint64(i)); err != nil && !isLowBalance(err) {
				s.Violate("others_served", "an honest session is refused while a hostile peer is connected", "update(%s): %v", c.Name, err)
				return
			}
			hosts, err := d.Peer(c, 2, "", false)
			if err != nil && !strings.Contains(err.Error(), "host") {
				s.Violate("others_served", "an honest session is refused while a hostile peer is connected", "peer(%s): %v", c.Name, err)
				return
			}
			_ = hosts
		}
	})
	// the hostile peer
	var mu sync.Mutex
	replies := map[string][]string{}
	// read replies raw: the hostile peer does not run a jsonrpc2.Remote on its end
	hostileReader := func(c *seams.Codec, onReq func(id, method string)) {
		for {
			m, err := c.ReadMessage()
			if err != nil {
				s.TaskLog("evil.reader", "reader ends: %v", err)
				return
			}
			b, _ := json.Marshal(m)
			if m.Request != nil {
				if onReq != nil {
					onReq(string(m.ID), m.Method)
				}
				continue
			}
			mu.Lock()
			replies[string(m.ID)] = append(replies[string(m.ID)], string(b))
			mu.Unlock()
		}
	}
	// replace the agent end's serve loop: stop the jsonrpc2.Remote the world started by giving the hostile peer a second, raw connection
	rawA, rawP := seams.Pipe(s, "evil.raw", "P/evil.raw", hostile.Addr, "192.0.2.1:8080")
	poolSide := &jsonrpc2.Remote{Codec: rawP, Server: w.Srv, Client: &jsonrpc2.Client{}, PendingLimit: 50, PendingDiscard: 10}
	s.GoBG("serve:P/evil.raw", func() {
		poolSide.Serve()
		rawP.Close()
		w.Pool.CloseRemote(poolSide)
	})
	nHostileReplies := 0
	s.GoBG("evil.reader", func() {
		hostileReader(rawA, func(id, method string) {
			// a reverse call from the pool (the hostile peer registered as a host): answer hostile
			mu.Lock()
			nHostileReplies++
			k := nHostileReplies
			mu.Unlock()
			var out []string
			switch k % 6 {
			case 0:
				out = []string{fmt.Sprintf(`{"jsonrpc":"2.0","id":%s}`, id)} // neither result nor error
			case 1:
				out = []string{`{"jsonrpc":"2.0","id":987654,"result":null}`, fmt.Sprintf(`{"jsonrpc":"2.0","id":%s,"result":null}`, id)} // unknown id first
			case 2:
				out = []string{fmt.Sprintf(`{"jsonrpc":"2.0","id":%s,"result":null}`, id), fmt.Sprintf(`{"jsonrpc":"2.0","id":%s,"result":null}`, id)} // duplicate
			case 3:
				out = []string{fmt.Sprintf(`{"jsonrpc":"2.0","id":%s,"result":{"a":[1,2]},"error":{"code":"x"}}`, id)}
			case 4:
				out = []string{fmt.Sprintf(`{"jsonrpc":"2.0","id":%s,"error":null}`, id)}
			default:
				out = []string{fmt.Sprintf(`{"id":%s,"result":"ok","method":""}`, id)}
			}
			for _, o := range out {
				rawA.WriteRaw([]byte(o))
			}
			s.Fault("hostile_reply")
		})
	})
	nReq := 3 + s.Choose("nhostile", 14)
	type sent struct{ id, desc string }
	var sentReqs []sent
	hostileDone := false
	s.Go("evil", func() {
		defer func() { hostileDone = true }()
		{
			// register properly first (as a host: the pool then sends it whitelist calls; else as a client),
			// so that its signed hostile keep-alives get past the "unregistered node" check
			hostile.IsHost = hostileHost
			args, _ := json.Marshal(hostile.Signed("vipnode_connect", time.Now().UnixNano(), hostile.ConnectReq("", "")))
			rawA.WriteRaw([]byte(fmt.Sprintf(`{"jsonrpc":"2.0","id":"reg","method":"vipnode_connect","params":%s}`, args)))
		}
		for i := 0; i < nReq && !s.Violated(); i++ {
			s.Gate("evil")
			raw, id, _, desc := hostileRequest(s, w, hostile, 1000+i)
			if err := rawA.WriteRaw([]byte(raw)); err != nil {
				mu.Lock()
				hr := nHostileReplies
				mu.Unlock()
				if hr > 0 {
					return
				}
				s.Violate("connection_usable", "a hostile request made the pool drop the connection", "after %d hostile requests the connection is closed: %v; last: %v", i, err, sentReqs)
				return
			}
			s.Fault("hostile_request")
			sentReqs = append(sentReqs, sent{id, desc})
		}
		// the same connection still answers ping
		s.Gate("evil")
		rawA.WriteRaw([]byte(`{"jsonrpc":"2.0","id":"final-ping","method":"vipnode_ping"}`))
	})
	res := s.Drive(kernel.DriveOpts{IdleCap: 30 * time.Second, Until: func() bool { return honestDone && hostileDone }})
	if res == kernel.Stopped {
		return
	}
	if res != kernel.Done {
		who := "the hostile session"
		if !honestDone {
			who = "an honest session"
		}
		s.Violate("others_served", who+" never completes while hostile traffic flows", "drive ended %s (honest done=%v hostile done=%v)", res, honestDone, hostileDone)
		return
	}
	s.Drive(kernel.DriveOpts{FIFO: true, Quiet: true, IdleCap: 6 * time.Second, MaxSteps: 4000})
	mu.Lock()
	defer mu.Unlock()
	if nHostileReplies > 0 {
		// the peer also sent hostile *replies*: the pool may drop that connection
		// (the statement exempts it); what remains is survival and the other sessions
		sentReqs = nil
	}
	for _, sr := range sentReqs {
		rs := replies[sr.id]
		if len(rs) != 1 {
			s.Violate("one_reply", "a well-formed request does not get exactly one reply", "request id %s (%s): %d replies %v", sr.id, sr.desc, len(rs), rs)
			return
		}
		var m map[string]json.RawMessage
		json.Unmarshal([]byte(rs[0]), &m)
		r, hasRes := m["result"]
		e, hasErr := m["error"]
		if hasErr && string(e) == "null" {
			hasErr = false
		}
		_ = r // ("result":null next to an error is both members: a peer that looks at result first sees a success)
		if hasRes == hasErr {
			s.Violate("one_reply", "a reply carries both or neither of result and error", "request id %s (%s): reply %s", sr.id, sr.desc, rs[0])
			return
		}
	}
	if rs := replies[`"final-ping"`]; nHostileReplies == 0 && (len(rs) != 1 || !strings.Contains(rs[0], "pong")) {
		s.Violate("connection_usable", "the hostile connection no longer answers vipnode_ping", "after %d hostile requests: replies to the final ping: %v (reply ids seen: %v)", len(sentReqs), rs, replyKeys(replies))
	}
	// garbage closes only the connection that sent it
	g := garbage[s.Choose("garbage", len(garbage))]
	gA, gP := seams.Pipe(s, "evil.garbage", "P/evil.garbage", hostile.Addr, "192.0.2.1:8080")
	gSide := &jsonrpc2.Remote{Codec: gP, Server: w.Srv, Client: &jsonrpc2.Client{}}
	s.GoBG("serve:P/evil.garbage", func() { gSide.Serve(); gP.Close() })
	gA.WriteRaw([]byte(g))
	s.Fault("garbage_bytes")
	mu.Unlock()
	pinged := false
	s.Go("afterping", func() {
		var out string
		ctx, cancel := context.WithCancel(s.Ctx)
		defer cancel()
		c := w.Actors[2]
		if err := c.Call(ctx, &out, "vipnode_ping"); err != nil || out != "pong" {
			s.Violate("others_served", "another connection stops being served after garbage on one connection", "ping on %s: %q %v", c.Conn.Name, out, err)
		}
		pinged = true
	})
	s.Drive(kernel.DriveOpts{IdleCap: 10 * time.Second})
	mu.Lock()
	_ = pinged
}

// ------------------------------------------------------------------ C15 agent side

func runC15Agent(s *kernel.Sim) {
	node := &seams.SimEthNode{S: s, NodeKind: ethnode.Geth, FullNode: s.Choose("full", 2) == 1, EnodeURI: "enode://" + hexID(77) + "@[::]:30303", FailNext: map[string]int{}}
	ae, pe := seams.Pipe(s, "agent", "evilpool", "10.0.0.9:1", "192.0.2.1:8080")
	key := detKey("agent77")
	asrv := &jsonrpc2.Server{}
	ag := &agent.Agent{EthNode: node, NumHosts: 1 + s.Choose("target", 4), StrictPeers: s.Choose("strict", 2) == 1, UpdateInterval: time.Minute, Version: "sim"}
	asrv.RegisterMethod("vipnode_whitelist", ag, "Whitelist")
	remote := &jsonrpc2.Remote{Codec: ae, Server: asrv, Client: &jsonrpc2.Client{}}
	if s.Choose("clientwiring", 4) == 0 {
		// the wiring of the `vipnode client` command (client.go): a Remote with a codec and nothing else
		remote = &jsonrpc2.Remote{Codec: ae}
	}
	rp := pool.Remote(remote, key)
	var serveEnded atomic.Bool
	s.GoBG("agent.serve", func() { remote.Serve(); serveEnded.Store(true) })
	s.AllowLeak = true
	node.Lock()
	p := ethnode.PeerInfo{ID: hexID(1)}
	p.Network.RemoteAddress = "198.51.100.1:30303"
	node.PeerSet = []ethnode.PeerInfo{p, {ID: "", Enode: "enode://x"}, {ID: hexID(2), Enode: strings.Repeat("e", 200)}}
	node.Unlock()
	hostileResults := []string{
		`null`, `{}`, `[]`, `"str"`, `7`,
		`{"pool_version":5,"message":[1]}`,
		`{"invalid_peers":["", "enode://", "::::", "enode://%zz@x", "` + hexID(1) + `"],"active_peers":["", "enode://@", "enode://` + hexID(1) + `@[::1", "` + strings.Repeat("a", 2000) + `"],"balance":{"credit":"x"}}`,
		`{"invalid_peers":null,"active_peers":null,"balance":null,"latest_block_number":-1}`,
		`{"invalid_peers":[1,2],"active_peers":{"a":1}}`,
		`{"peers":[{"uri":"","ID":""},{"uri":"enode://%zz@","ID":5},null]}`,
		`{"peers":null}`,
		`{"invalid_peers":["` + hexID(1) + `"],"active_peers":[]}`,
	}
	n := 0
	s.GoBG("evilpool", func() {
		for {
			m, err := pe.ReadMessage()
			if err != nil {
				return
			}
			if m.Request == nil {
				continue
			}
			n++
			id := string(m.ID)
			var out []string
			switch s.TaskChoose("evilpool", "reply", 8) {
			case 0:
				out = []string{fmt.Sprintf(`{"jsonrpc":"2.0","id":%s}`, id)} // neither result nor error
			case 1:
				out = []string{`{"jsonrpc":"2.0","id":424242,"result":{}}`, fmt.Sprintf(`{"jsonrpc":"2.0","id":%s,"result":{}}`, id)}
			case 2:
				out = []string{fmt.Sprintf(`{"jsonrpc":"2.0","id":%s,"result":{}}`, id), fmt.Sprintf(`{"jsonrpc":"2.0","id":%s,"result":{}}`, id)}
			case 3:
				out = []string{fmt.Sprintf(`{"jsonrpc":"2.0","id":%s,"error":{"code":-32603,"message":"no available host nodes"}}`, id)}
			case 4:
				out = []string{fmt.Sprintf(`{"jsonrpc":"2.0","id":%s,"error":{"code":"x","message":5}}`, id)}
			default:
				out = []string{fmt.Sprintf(`{"jsonrpc":"2.0","id":%s,"result":%s}`, id, hostileResults[s.TaskChoose("evilpool", "result", len(hostileResults))])}
			}
			if n%4 == 0 {
				// and a hostile request to the agent's reverse service
				out = append(out, []string{`{"jsonrpc":"2.0","id":9,"method":"vipnode_whitelist"}`, `{"jsonrpc":"2.0","id":[1],"method":"vipnode_whitelist","params":[5]}`, `{"jsonrpc":"2.0","id":10,"method":"vipnode_disconnect","params":["x"]}`, `{"jsonrpc":"2.0","method":"vipnode_whitelist","params":null}`}[n/4%4])
			}
			for _, o := range out {
				pe.WriteRaw([]byte(o))
			}
			s.Fault("hostile_reply")
		}
	})
	s.SetYield("eth", 1)
	done := false
	s.Go("driver", func() {
		defer func() { done = true }()
		// the hostile pool answers every request at once with a message that carries the request's id: whatever
		// that message is, it must end the call - a call that only ends by its deadline was never woken up
		// (a message the codec cannot decode ends the connection: nothing is delivered on it any more)
		woken := func(what string, err error) {
			if serveEnded.Load() {
				return
			}
			if err != nil && (strings.Contains(err.Error(), "deadline exceeded") || strings.Contains(err.Error(), "context canceled")) {
				if os.Getenv("VERIF_STACKS") != "" {
					buf := make([]byte, 1<<20)
					os.Stderr.Write(buf[:runtime.Stack(buf, true)])
				}
				s.Violate("agent_survives", "a hostile reply carrying the call's id never woke the caller", "%s ended only by its deadline: %v", what, err)
			}
		}
		err := ag.Start(rp)
		s.TaskLog("driver", "Start -> %v", err)
		woken("Start", err)
		for i := 0; i < 4; i++ {
			ctx, cancel := context.WithTimeout(s.Ctx, 20*time.Second)
			err := ag.UpdatePeers(ctx, rp)
			cancel()
			s.TaskLog("driver", "UpdatePeers -> %v", err)
			woken("UpdatePeers", err)
		}
	})
	res := s.Drive(kernel.DriveOpts{IdleCap: 2 * time.Minute, Until: func() bool { return done }})
	if res != kernel.Done && res != kernel.Stopped {
		s.Violate("agent_survives", "the agent wedges on a hostile pool reply", "drive ended %s", res)
	}
	ae.Reset()
}

// ------------------------------------------------------------------ C16

// RecvA is a receiver with a mix of method shapes.
type RecvA struct {
	mu    sync.Mutex
	calls map[string]int
}

type Opts struct {
	Loud bool `json:"loud"`
}
type hiddenT struct{ x int }

func (r *RecvA) hit(n string) {
	r.mu.Lock()
	r.calls[n]++
	r.mu.Unlock()
}
func (r *RecvA) Ping(ctx context.Context) string { r.hit("Ping"); return "pong" }
func (r *RecvA) Add(ctx context.Context, a int, b int) (int, error) {
	r.hit("Add")
	return a + b, nil
}
func (r *RecvA) Greet(name string, opts *Opts) (string, error) {
	r.hit("Greet")
	return "hi " + name, nil
}
func (r *RecvA) Mixed(ctx context.Context, s string, n int64, f bool, l []string, m map[string]int) error {
	r.hit("Mixed")
	return nil
}
func (r *RecvA) Hidden(x hiddenT) string   { r.hit("Hidden"); return "" }
func (r *RecvA) helper() string            { r.hit("helper"); return "" }
func (r *RecvA) URLEncode(s string) string { r.hit("URLEncode"); return s }

// RecvOdd has methods of shapes that reflection can describe but a positional call cannot serve as they are.
type RecvOdd struct{}

func (r *RecvOdd) Fine() string                                     { return "fine" }
func (r *RecvOdd) Join(sep string, xs ...string) string             { return strings.Join(xs, sep) }
func (r *RecvOdd) Late(a int, ctx context.Context) int              { return a }
func (r *RecvOdd) Both(ctx context.Context, xs ...int) (int, error) { return len(xs), nil }

var recvAMethods = map[string][]string{ // exported & registrable: name -> JSON kinds of positional params
	"Ping": {}, "Add": {"int", "int"}, "Greet": {"string", "*object"}, "Mixed": {"string", "int", "bool", "strings", "intmap"}, "URLEncode": {"string"},
}

func okValue(kind string) string {
	switch kind {
	case "int":
		return "3"
	case "string":
		return `"s"`
	case "bool":
		return "true"
	case "strings":
		return `["a"]`
	case "intmap":
		return `{"k":1}`
	case "*object":
		return `{"loud":true}`
	}
	return "null"
}

var badValues = map[string][]string{
	// (JSON null for a scalar is a don't-care: encoding/json leaves the zero value)
	// (strings that look like a value of the expected type are still strings)
	"int":     {`"x"`, `true`, `[1]`, `{}`, `1.5`, `"7"`, `"-7"`, `"1569400000000000001"`, `""`, `"0x10"`, `1e400`},
	"string":  {`5`, `true`, `[]`, `{}`},
	"bool":    {`"true"`, `1`, `[]`, `0`, `"1"`},
	"strings": {`"a"`, `[1]`, `{}`, `5`},
	"intmap":  {`[1]`, `{"k":"v"}`, `"m"`, `7`},
	"*object": {`5`, `"o"`, `[1]`},
}

func lowerFirst(n string) string { return strings.ToLower(n[:1]) + n[1:] }

func runC16(s *kernel.Sim) {
	// --- family: receiver x prefix x allow-list
	prefix := []string{"a_", "vipnode_", "", "x.y_", "pool_"}[s.Choose("prefix", 5)]
	names := []string{"Ping", "Add", "Greet", "Mixed", "URLEncode"}
	var allow []string
	useAllow := s.Choose("allow", 2) == 1
	if useAllow {
		for _, n := range names {
			if s.Choose("allowed", 2) == 1 {
				allow = append(allow, lowerFirst(n))
			}
		}
		allow = append(allow, "helper", "hidden", "nosuch")
	}
	recv := &RecvA{calls: map[string]int{}}
	srv := &jsonrpc2.Server{}
	if err := srv.Register(prefix, recv, allow...); err != nil {
		s.Violate("register", "Register fails for a valid receiver", "%v", err)
		return
	}
	// transport: direct Handle, or through a real Remote pair over a simulated connection
	viaRemote := s.Choose("transport", 2) == 1
	var call func(method, params string) (code int, result string)
	if viaRemote {
		ca, cb := seams.Pipe(s, "cli", "srv", "10.0.0.1:1", "10.0.0.2:2")
		rs := &jsonrpc2.Remote{Codec: cb, Server: srv, Client: &jsonrpc2.Client{}}
		s.GoBG("srv", func() { rs.Serve() })
		pending := map[string]chan map[string]json.RawMessage{}
		var pm sync.Mutex
		s.GoBG("cli.reader", func() {
			for {
				m, err := ca.ReadMessage()
				if err != nil {
					return
				}
				b, _ := json.Marshal(m)
				var mm map[string]json.RawMessage
				json.Unmarshal(b, &mm)
				pm.Lock()
				ch := pending[string(m.ID)]
				pm.Unlock()
				if ch != nil {
					ch <- mm
				}
			}
		})
		n := 0
		call = func(method, params string) (int, string) {
			n++
			id := fmt.Sprint(n)
			ch := make(chan map[string]json.RawMessage, 1)
			pm.Lock()
			pending[id] = ch
			pm.Unlock()
			raw := fmt.Sprintf(`{"jsonrpc":"2.0","id":%s,"method":%q`, id, method)
			if params != "<omitted>" {
				raw += `,"params":` + params
			}
			ca.WriteRaw([]byte(raw + "}"))
			select {
			case mm := <-ch:
				return replyCode(mm)
			case <-s.Ctx.Done():
				return -1, "cancelled"
			}
		}
	} else {
		n := 0
		call = func(method, params string) (int, string) {
			n++
			msg := &jsonrpc2.Message{Version: "2.0", ID: json.RawMessage(fmt.Sprint(n)), Request: &jsonrpc2.Request{Method: method}}
			if params != "<omitted>" {
				msg.Request.Params = json.RawMessage(params)
			}
			resp := srv.Handle(context.Background(), msg)
			b, _ := json.Marshal(resp)
			var mm map[string]json.RawMessage
			json.Unmarshal(b, &mm)
			return replyCode(mm)
		}
	}
	allowed := func(n string) bool {
		if !useAllow {
			return true
		}
		for _, a := range allow {
			if a == lowerFirst(n) {
				return true
			}
		}
		return false
	}
	total := func() int {
		recv.mu.Lock()
		defer recv.mu.Unlock()
		t := 0
		for _, v := range recv.calls {
			t += v
		}
		return t
	}
	done := false
	s.Go("prober", func() {
		defer func() { done = true }()
		probes := 0
		// names
		for _, n := range names {
			kinds := recvAMethods[n]
			ok := make([]string, len(kinds))
			for i, k := range kinds {
				ok[i] = okValue(k)
			}
			good := "[" + strings.Join(ok, ",") + "]"
			before := total()
			code, res := call(prefix+lowerFirst(n), good)
			probes++
			if allowed(n) {
				if code != 0 {
					s.Violate("callable_set", "a registered method is not callable", "%s%s(%s): code %d %s (allow-list %v)", prefix, lowerFirst(n), good, code, res, allow)
					return
				}
				if total() != before+1 {
					s.Violate("callable_set", "a successful call did not run the method exactly once", "%s: counter moved by %d", n, total()-before)
					return
				}
			} else if code != jsonrpc2.ErrCodeMethodNotFound || total() != before {
				s.Violate("callable_set", "a method outside the allow-list is callable", "%s%s: code %d, ran=%v (allow-list %v)", prefix, lowerFirst(n), code, total() != before, allow)
				return
			}
			// case variants and other prefixes are unknown names
			for _, v := range []string{prefix + n, strings.ToUpper(prefix + lowerFirst(n)), "other_" + lowerFirst(n), lowerFirst(n) + "x", prefix + prefix + lowerFirst(n)} {
				if v == prefix+lowerFirst(n) {
					continue
				}
				before := total()
				code, _ := call(v, good)
				probes++
				if code != jsonrpc2.ErrCodeMethodNotFound || total() != before {
					s.Violate("callable_set", "an unregistered name is callable", "%q: code %d, ran=%v", v, code, total() != before)
					return
				}
			}
			if !allowed(n) {
				continue
			}
			// arity 0..n+2, omitted and null params
			for ar := 0; ar <= len(kinds)+2; ar++ {
				if ar == len(kinds) {
					continue
				}
				vals := make([]string, ar)
				for i := range vals {
					if i < len(kinds) {
						vals[i] = okValue(kinds[i])
					} else {
						vals[i] = "1"
					}
				}
				// a trailing pointer parameter is optional by contract of the positional decoder
				if ar == len(kinds)-1 && len(kinds) > 0 && strings.HasPrefix(kinds[len(kinds)-1], "*") {
					continue
				}
				before := total()
				code, res := call(prefix+lowerFirst(n), "["+strings.Join(vals, ",")+"]")
				probes++
				if code != jsonrpc2.ErrCodeInvalidParams || total() != before {
					key := "too many parameters are not answered with invalid-params"
					if ar < len(kinds) {
						key = "too few parameters are not answered with invalid-params"
					}
					s.Violate("invalid_params", key, "%s with %d of %d parameters: code %d %s, ran=%v", n, ar, len(kinds), code, res, total() != before)
					return
				}
			}
			if len(kinds) > 0 && !(len(kinds) == 1 && strings.HasPrefix(kinds[0], "*")) {
				for _, pv := range []string{"<omitted>", "null"} {
					before := total()
					code, res := call(prefix+lowerFirst(n), pv)
					probes++
					if code != jsonrpc2.ErrCodeInvalidParams || total() != before {
						s.Violate("invalid_params", "omitted or null params for a method that needs some are not answered with invalid-params", "%s params=%s: code %d %s, ran=%v", n, pv, code, res, total() != before)
						return
					}
				}
				for _, pv := range []string{`{}`, `"x"`, `5`} {
					before := total()
					code, res := call(prefix+lowerFirst(n), pv)
					probes++
					if code != jsonrpc2.ErrCodeInvalidParams || total() != before {
						s.Violate("invalid_params", "non-array params are not answered with invalid-params", "%s params=%s: code %d %s, ran=%v", n, pv, code, res, total() != before)
						return
					}
				}
			}
			// per-position type substitutions
			for pos, k := range kinds {
				bv := badValues[k]
				sub := bv[s.TaskChoose("prober", "bad", len(bv))]
				if sub == "null" && strings.HasPrefix(k, "*") {
					continue
				}
				vals := append([]string(nil), ok...)
				vals[pos] = sub
				before := total()
				code, res := call(prefix+lowerFirst(n), "["+strings.Join(vals, ",")+"]")
				probes++
				if code != jsonrpc2.ErrCodeInvalidParams || total() != before {
					s.Violate("invalid_params", "a wrongly typed parameter is not answered with invalid-params", "%s position %d (%s) = %s: code %d %s, ran=%v", n, pos, k, sub, code, res, total() != before)
					return
				}
			}
		}
		// unexported, helper and skipped methods
		for _, v := range []string{"helper", "Helper", "hidden", "Hidden", "hit", "calls", "mu"} {
			before := total()
			code, _ := call(prefix+v, "[]")
			probes++
			if code != jsonrpc2.ErrCodeMethodNotFound || total() != before {
				s.Violate("callable_set", "an unexported or unregistrable method is callable", "%q: code %d ran=%v", prefix+v, code, total() != before)
				return
			}
		}
		s.ProbeN("c16.probes", probes)
	})
	s.Drive(kernel.DriveOpts{IdleCap: time.Second, Until: func() bool { return done }})
	if s.Violated() {
		return
	}
	// receivers with method shapes the call machinery cannot serve as they are (variadic, a context that is not the
	// first parameter): whatever Register makes of them - refuse, skip, or serve - a request must not crash the process
	{
		osrv := &jsonrpc2.Server{}
		regErr := osrv.Register("o_", &RecvOdd{})
		for _, c := range [][2]string{{"o_fine", `[]`}, {"o_join", `["-",["a","b"]]`}, {"o_join", `["-","a","b"]`}, {"o_join", `["-"]`}, {"o_late", `[1]`}, {"o_both", `[[1,2]]`}, {"o_both", `[1,2]`}, {"o_both", `[]`}} {
			func() {
				defer func() {
					if r := recover(); r != nil {
						s.Violate("process_crash", "a request to a registered method panics inside the call machinery", "Register(\"o_\", &RecvOdd{}) returned %v; request %s %s: panic: %v (over a WebSocket connection nothing recovers it: the process dies)", regErr, c[0], c[1], r)
					}
				}()
				msg := &jsonrpc2.Message{Version: "2.0", ID: json.RawMessage("1"), Request: &jsonrpc2.Request{Method: c[0], Params: json.RawMessage(c[1])}}
				osrv.Handle(context.Background(), msg)
			}()
		}
		if s.Violated() {
			return
		}
	}
	runC16Production(s)
	s.MarkNontrivial()
	s.SigMix(fmt.Sprintf("%s|%v|%v", prefix, allow, viaRemote))
}

func replyCode(mm map[string]json.RawMessage) (int, string) {
	if e, ok := mm["error"]; ok && string(e) != "null" {
		var er struct {
			Code    int    `json:"code"`
			Message string `json:"message"`
		}
		json.Unmarshal(e, &er)
		return er.Code, er.Message
	}
	return 0, string(mm["result"])
}

// the documented RPC surface of the pool binary
var productionSurface = []string{"pool_account", "pool_addNode", "pool_status", "pool_withdraw", "vipnode_client", "vipnode_connect", "vipnode_host", "vipnode_peer", "vipnode_ping", "vipnode_update"}

// runC16Production probes the production registration (as pool.go performs it).
func runC16Production(s *kernel.Sim) {
	cfg := WorldCfg{Driver: "memory", Hosts: 1, Clients: 1, Wallets: 1, Interval: time.Minute, Price: big.NewInt(1000)}
	w := NewWorld(s, cfg)
	dash := &status.PoolStatus{Store: w.YS, TimeStarted: time.Now(), Version: "sim", CacheDuration: time.Minute}
	if err := w.Srv.Register("pool_", dash); err != nil {
		panic(err)
	}
	handle := func(method, params string) (int, string) {
		msg := &jsonrpc2.Message{Version: "2.0", ID: json.RawMessage("1"), Request: &jsonrpc2.Request{Method: method}}
		if params != "" {
			msg.Request.Params = json.RawMessage(params)
		}
		b, _ := json.Marshal(w.Srv.Handle(context.Background(), msg))
		var mm map[string]json.RawMessage
		json.Unmarshal(b, &mm)
		return replyCode(mm)
	}
	surface := map[string]bool{}
	for _, m := range productionSurface {
		surface[m] = true
	}
	// every exported or unexported method name of the registered objects, with both prefixes
	cands := []string{"closeRemote", "numRemotes", "verify", "disconnectPeers", "requestHosts", "connect", "update", "peer", "client", "host", "ping", "disconnect", "withdraw", "addNode", "account", "status", "getStatus", "settle", "store", "new",
		"CloseRemote", "NumRemotes", "Connect", "Update", "Ping", "Status", "AddNode"}
	var callable []string
	for _, pfx := range []string{"vipnode_", "pool_", ""} {
		for _, c := range cands {
			name := pfx + c
			code, _ := handle(name, "[]")
			if code != jsonrpc2.ErrCodeMethodNotFound {
				callable = append(callable, name)
				if !surface[name] {
					s.Violate("callable_set", "the pool serves a call outside its documented surface", "%q is callable (code %d)", name, code)
					return
				}
			}
		}
	}
	sort.Strings(callable)
	if !sameStrs(callable, productionSurface) {
		s.Violate("callable_set", "the pool does not serve exactly its documented calls", "callable %v, documented %v", callable, productionSurface)
		return
	}
	// wrong arity / types on the production methods never run them: no store operation, no state change
	before := w.Digest()
	muts := w.YS.MutationCount()
	ops := func() int {
		n := 0
		for _, v := range w.YS.Ops {
			n += v
		}
		return n
	}
	o0 := ops()
	for _, m := range []string{"vipnode_connect", "vipnode_update", "vipnode_peer", "vipnode_host", "vipnode_client", "pool_addNode", "pool_withdraw", "pool_account"} {
		for _, p := range []string{"", "null", "[]", `["sig"]`, `["sig","id"]`, `[1,2,3,4]`, `["sig","id","nonce",{}]`, `["sig","id",1,{},"extra","more"]`, `{}`, `["sig","id",1,"notanobject"]`} {
			if m == "pool_withdraw" && p == `["sig","id",1]` {
				continue
			}
			if m == "pool_account" && (p == `["sig"]`) {
				continue // one string parameter is this method's correct shape
			}
			if m == "pool_addNode" && p == `["sig","id",1,"notanobject"]` {
				continue // (sig, wallet, nonce, nodeID string) is this method's correct shape
			}
			code, res := handle(m, p)
			if code == 0 {
				s.Violate("invalid_params", "a production method runs with malformed parameters", "%s params=%q returned result %s", m, p, res)
				return
			}
			if code != jsonrpc2.ErrCodeInvalidParams {
				// the method ran (and failed later): with a wrong shape it must not have run at all
				if ops() != o0 {
					s.Violate("invalid_params", "a production method runs with malformed parameters", "%s params=%q: code %d %q and %d store operations", m, p, code, res, ops()-o0)
					return
				}
				s.Violate("invalid_params", "malformed parameters of a production method are not answered with invalid-params", "%s params=%q: code %d %q", m, p, code, res)
				return
			}
		}
	}
	if w.Digest() != before || w.YS.MutationCount() != muts {
		s.Violate("invalid_params", "malformed production calls changed pool state", "digest or mutation count moved")
	}
}

func replyKeys(m map[string][]string) []string {
	var r []string
	for k := range m {
		r = append(r, k)
	}
	sort.Strings(r)
	return r
}
