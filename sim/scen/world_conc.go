package scen

import (
	"context"
	"encoding/json"
	"fmt"
	"github.com/vipnode/vipnode/v2/pool/balance"
	"math/big"
	"sort"
	"strings"
	"sync"
	"time"

	"github.com/vipnode/vipnode/v2/pool"
	"github.com/vipnode/vipnode/v2/pool/store"
	"github.com/vipnode/vipnode/v2/request"
	"verif/sim/kernel"
	"verif/sim/seams"
)

func init() {
	Register(&Scenario{
		Name: "c10_concurrent", Property: "C10", MaxSteps: 30000, Quick: 400, Thorough: 30000, Race: true,
		Doc:  "bursts of 2-8 overlapping vipnode_update / vipnode_peer / pool_addNode / duplicate-request calls from agents that share hosts and wallets (including two keep-alives of the same client and two copies of one signed request), interleaved at every store-operation boundary and at the in-transaction yield points of the badger driver (real optimistic conflicts); oracles: every balance holder's credit moved by what some one-at-a-time order of the acknowledged requests would move it (interval arithmetic over the charge), credit sum conserved, a nonce honoured at most once, every value handed out by a store unchanged by later operations; the same runs are repeated in a -race build with masked scheduler hand-offs",
		Real: worldReal, Stub: worldStub,
		Run: func(s *kernel.Sim) { runC10(s, "C10") },
	})
	Register(&Scenario{
		Name: "c10_cold_start", Property: "C10", MaxSteps: 20000, Quick: 150, Thorough: 5000, Race: true, RaceOnly: true,
		Doc:  "the first keep-alives a pool process ever bills (balance manager as pool.go has just built it) arrive at once from different clients, with as little harness between the requests as possible (no wrappers around the store besides the yield points): -race build only, the oracle is the race detector plus every keep-alive being acknowledged",
		Real: worldReal, Stub: worldStub,
		Run: runC10ColdStart,
	})
	Register(&Scenario{
		Name: "c02_failed_update_vs_connect", Property: "C02", MaxSteps: 20000, Quick: 200, Thorough: 10000,
		Doc:  "a light client's keep-alive that is going to fail in billing (one injected storage error) overlaps the same client registering again over a new connection: the keep-alive fails as a whole, so afterwards the client's check-in must be the one of its registration - the next keep-alive bills from there, not from before it (judged in the interleavings where the registration is saved after the keep-alive has checked in)",
		Real: worldReal, Stub: worldStub,
		Run: runC02FailedUpdateVsConnect,
	})
	Register(&Scenario{
		Name: "c02_billing_conc", Property: "C02", MaxSteps: 30000, Quick: 250, Thorough: 20000,
		Doc:  "the c10 burst world judged by billing only: overlapping and back-to-back keep-alives of the same and of different clients must move every balance by what some one-at-a-time order gives - in particular no stretch of time is billed twice",
		Real: worldReal, Stub: worldStub,
		Run: func(s *kernel.Sim) { runC10(s, "C02") },
	})
	Register(&Scenario{
		Name: "c01_ledger_conc", Property: "C01", MaxSteps: 30000, Quick: 250, Thorough: 20000,
		Doc:  "the c10 burst world judged by the ledger only: at quiescence after concurrent keep-alives (with real badger conflicts) the credit sum is what it was before the burst",
		Real: worldReal, Stub: worldStub,
		Run: func(s *kernel.Sim) { runC10(s, "C01") },
	})
	Register(&Scenario{
		Name: "c01_first_touch_conc", Property: "C01", MaxSteps: 30000, Quick: 300, Thorough: 20000,
		Doc:  "the burst world on the persistent driver with nodes that have no balance record yet: their first credit or debit ever races, inside the badger transaction, with the node's own keep-alive or re-registration (a write to its node record, i.e. a real optimistic conflict and a retried transaction); the credit sum at quiescence is what it was",
		Real: worldReal, Stub: worldStub,
		Run: func(s *kernel.Sim) { runC10(s, "C01", "firsttouch") },
	})
	Register(&Scenario{
		Name: "c10_same_client", Property: "C10", MaxSteps: 30000, Quick: 400, Thorough: 20000,
		Doc:  "two to four keep-alives of one client (distinct fresh nonces, separate connections) in flight at once: whatever subset is acknowledged, every balance moved by what some one-at-a-time order of them moves it (no stretch of time billed twice)",
		Real: worldReal, Stub: worldStub,
		Run: func(s *kernel.Sim) { runC10(s, "C10", "sameclient") },
	})
	Register(&Scenario{
		Name: "c02_same_client_conc", Property: "C02", MaxSteps: 30000, Quick: 300, Thorough: 20000,
		Doc:  "the same-client burst judged by billing only",
		Real: worldReal, Stub: worldStub,
		Run: func(s *kernel.Sim) { runC10(s, "C02", "sameclient") },
	})
	Register(&Scenario{
		Name: "c10_first_touch", Property: "C10", MaxSteps: 30000, Quick: 300, Thorough: 20000,
		Doc:  "the first-touch burst judged by all C10 oracles (serial-order balances, snapshots, nonces)",
		Real: worldReal, Stub: worldStub,
		Run: func(s *kernel.Sim) { runC10(s, "C10", "firsttouch") },
	})
	Register(&Scenario{
		Name: "c05_nonce_rpc_race", Property: "C05", MaxSteps: 30000, Quick: 250, Thorough: 20000, Race: true,
		Doc:  "the c10 burst world judged by nonces only: copies of one signed request racing each other through the real RPC path are honoured at most once",
		Real: worldReal, Stub: worldStub,
		Run: func(s *kernel.Sim) { runC10(s, "C05") },
	})
	Register(&Scenario{
		Name: "c07_withdraw_race", Property: "C07", MaxSteps: 30000, Quick: 700, Thorough: 20000, Race: true,
		Doc:  "two or three concurrent pool_withdraw calls of one wallet (plus keep-alives crediting it), interleaved at the balance read, inside the settlement handler and after it, with settlement failures: cumulative payments never exceed what the wallet earned plus its deposit, and the wallet is empty after a successful withdrawal that nothing followed",
		Real: worldReal, Stub: worldStub,
		Run: runC07Race,
	})
	Register(&Scenario{
		Name: "c09_registry_race", Property: "C09", MaxSteps: 30000, Quick: 300, Thorough: 20000, Race: true,
		Doc:  "hosts connect, reconnect and close connections concurrently with in-flight peer requests; requests that start after a close has been processed never write to that connection, closing an old connection never unregisters the new one, and at quiescence the count of connected hosts equals the hosts whose latest registered connection is open",
		Real: worldReal, Stub: worldStub,
		Run: runC09Race,
	})
}

// snapshot registry: values handed out by the store must never change afterwards (C10).
type snapReg struct {
	mu    sync.Mutex
	items []snapItem
	// balances handed out per node id (as strings) — a reply's balance must be one of them
	handed map[string]map[string]bool
}

type snapItem struct {
	what string
	bal  *store.Balance
	node *store.Node
	want string
}

func balSnap(b *store.Balance) (snap string) {
	// (a number whose digits somebody else rewrites in place may not even be well-formed when it is read: math/big
	// panics on that; for the oracle it is a value that changed)
	defer func() {
		if r := recover(); r != nil {
			snap = fmt.Sprintf("%s|<not a well-formed number any more: %v>", b.Account, r)
		}
	}()
	return fmt.Sprintf("%s|%s|%s", b.Account, b.Credit.String(), b.Deposit.String())
}
func nodeSnap(n *store.Node) string {
	return fmt.Sprintf("%s|%s|%d|%s|%v|%s|%d", n.ID, n.URI, n.LastSeen.UnixNano(), n.Kind, n.IsHost, n.Payout, n.BlockNumber)
}

func (r *snapReg) check(s *kernel.Sim, when string) {
	r.mu.Lock()
	defer r.mu.Unlock()
	for _, it := range r.items {
		got := ""
		if it.bal != nil {
			got = balSnap(it.bal)
		} else {
			got = nodeSnap(it.node)
		}
		if got != it.want {
			kind := "balance"
			if it.node != nil {
				kind = "node record"
			}
			s.Violate("snapshot", "a "+kind+" handed out by the store changed afterwards", "%s: %s handed out as %q now reads %q", when, it.what, it.want, got)
			return
		}
	}
}

// snapStore wraps the World's BalanceStore/Store reads to register snapshots.
type snapStore struct {
	store.Store
	reg *snapReg
}

func (x *snapStore) GetNodeBalance(id store.NodeID) (store.Balance, error) {
	b, err := x.Store.GetNodeBalance(id)
	if err == nil {
		keep := b // shares digit storage with whatever the driver handed out
		x.reg.mu.Lock()
		x.reg.items = append(x.reg.items, snapItem{what: "GetNodeBalance(" + short10(string(id)) + ")", bal: &keep, want: balSnap(&keep)})
		if x.reg.handed[string(id)] == nil {
			x.reg.handed[string(id)] = map[string]bool{}
		}
		x.reg.handed[string(id)][keep.Credit.String()] = true
		x.reg.mu.Unlock()
	}
	return b, err
}

func (x *snapStore) GetAccountBalance(acc store.Account) (store.Balance, error) {
	b, err := x.Store.GetAccountBalance(acc)
	if err == nil {
		keep := b
		x.reg.mu.Lock()
		x.reg.items = append(x.reg.items, snapItem{what: "GetAccountBalance(" + short10(string(acc)) + ")", bal: &keep, want: balSnap(&keep)})
		x.reg.mu.Unlock()
	}
	return b, err
}

func (x *snapStore) GetNode(id store.NodeID) (*store.Node, error) {
	n, err := x.Store.GetNode(id)
	if err == nil && n != nil {
		x.reg.mu.Lock()
		x.reg.items = append(x.reg.items, snapItem{what: "GetNode(" + short10(string(id)) + ")", node: n, want: nodeSnap(n)})
		x.reg.mu.Unlock()
	}
	return n, err
}

func (x *snapStore) NodePeers(id store.NodeID) ([]store.Node, error) {
	l, err := x.Store.NodePeers(id)
	if err == nil {
		x.reg.mu.Lock()
		for i := range l {
			x.reg.items = append(x.reg.items, snapItem{what: "NodePeers(" + short10(string(id)) + ")[" + short10(string(l[i].ID)) + "]", node: &l[i], want: nodeSnap(&l[i])})
		}
		x.reg.mu.Unlock()
	}
	return l, err
}

type holderRange struct{ lo, hi *big.Int }

type burstTask struct {
	name   string
	kind   string // update | peer | addnode
	a      *Actor
	peers  []string
	nonce  int64
	dupOf  int // index of the task whose signed request this one copies, or -1
	ok     bool
	err    error
	reply  string // credit in the reply, if any
	target *Actor // addnode: the node being linked
}

// runC10 is the burst world.  focus "firsttouch": persistent driver with in-transaction yields, nodes that have no balance
// record yet, and hosts that write their own node record (keep-alive, re-registration) while clients' keep-alives credit them.
func runC10(s *kernel.Sim, prop string, focus ...string) {
	firstTouch := len(focus) > 0 && focus[0] == "firsttouch"
	sameClient := len(focus) > 0 && focus[0] == "sameclient" // every task is a keep-alive of one client
	cfg := WorldCfg{Driver: []string{"badger", "memory"}[s.Choose("driver", 2)]}
	if firstTouch {
		cfg.Driver = "badger"
	}
	cfg.Hosts = 1 + s.Choose("hosts", 3)
	cfg.Clients = 1 + s.Choose("clients", 3)
	if sameClient {
		cfg.Clients = 1
	}
	cfg.Wallets = 2
	cfg.Interval = time.Second
	cfg.Price = []*big.Int{big.NewInt(1), big.NewInt(1000), new(big.Int).Set(big70)}[s.Choose("price", 3)]
	cfg.TxnYields = s.Choose("txnyields", 3) != 0 || firstTouch
	if firstTouch {
		cfg.Price = big.NewInt(int64(1 + s.Choose("smallprice", 1000)))
	}
	cfg.StoreYields = 3
	cfg.PostWrite = s.Choose("postwrite", 2) * 2
	cfg.PendingLimit = true
	w := NewWorld(s, cfg)
	// the snapshot registry sits between the pool and the yielding store
	reg := &snapReg{handed: map[string]map[string]bool{}}
	if prop == "C10" {
		ss := &snapStore{Store: w.YS, reg: reg}
		w.Pool.Store = ss
		w.Dep.inner = ss
		w.Pay.AccountStore = ss
	}
	s.IdleSteps = []time.Duration{time.Millisecond, 50 * time.Millisecond, time.Second}
	// --- setup (sequential, yields off)
	for _, c := range []string{"store", "storeret", "txn", "postwrite"} {
		s.SetYield(c, 0)
	}
	d := NewDirector(w) // no oracles: setup only
	tracked := map[string][]string{}
	var clients []*Actor
	setupDone := false
	adv := time.Duration(1+s.Choose("adv", 100))*time.Second + 500*time.Millisecond
	shareWallet := s.Choose("sharewallet", 3) == 0
	s.Go("director", func() {
		for _, a := range w.Actors {
			payout := ""
			if firstTouch && a.IsHost && d.choose("setuppayout", 2) == 1 {
				// registered with a payout address; a re-registration in the burst carries none
				payout = w.Wallets[1].Addr
			}
			d.Connect(a, payout, "", false)
		}
		for _, a := range w.Actors {
			if a.IsHost {
				continue
			}
			var ps []string
			for _, h := range w.Actors {
				if h.IsHost && d.choose("track", 3) != 0 {
					ps = append(ps, h.ID)
				}
			}
			if len(ps) == 0 {
				ps = []string{w.Actors[0].ID}
			}
			d.Update(a, ps, 1)
			tracked[a.ID] = ps
			clients = append(clients, a)
		}
		if shareWallet {
			// a client and a host share one wallet
			d.AddNode(w.Actors[0], w.Wallets[0], clients[0])
			d.AddNode(w.Actors[0], w.Wallets[0], w.Actors[0])
		}
		// starting credit so that multi-word arithmetic and aliasing have something to bite on
		// (in some runs a few nodes stay without any balance record: their first credit or debit ever happens in the burst)
		fresh := d.choose("freshbalances", 2) == 1 || firstTouch
		for _, a := range w.Actors {
			if fresh && (d.choose("nobalance", 2) == 0 || firstTouch) {
				continue
			}
			w.Inner.AddNodeBalance(store.NodeID(a.ID), new(big.Int).Add(big70, big.NewInt(int64(1000+d.choose("init", 1000)))))
		}
		d.Advance(adv)
		setupDone = true
	})
	if r := s.Drive(kernel.DriveOpts{IdleCap: time.Hour}); r != kernel.Done || !setupDone {
		if r != kernel.Stopped {
			s.Violate("liveness", "setup never finishes", "setup ended %s", r)
		}
		return
	}
	if s.Choose("coldmanager", 2) == 1 {
		// the burst is the first billing the pool process does (it was restarted: nodes and balances are in the store,
		// the balance manager is as pool.go has just built it)
		w.Pool.BalanceManager = balance.PayPerInterval(w.Dep, cfg.Interval, cfg.Price)
		s.Probe("c10.burst_is_first_billing_of_the_process")
	}
	// --- state before the burst
	holder := func(id string) string {
		b, err := w.Inner.GetNodeBalance(store.NodeID(id))
		if err == nil && b.Account != "" {
			return "acct:" + string(b.Account)
		}
		return "node:" + id
	}
	credit := func(id string) *big.Int {
		b, _ := w.Inner.GetNodeBalance(store.NodeID(id))
		return new(big.Int).Set(&b.Credit)
	}
	initial := map[string]*big.Int{}
	startHolder := map[string]string{}
	for _, a := range w.Actors {
		startHolder[a.ID] = holder(a.ID)
		initial[holder(a.ID)] = credit(a.ID)
	}
	// nodes still on their trial balance can be linked to the second wallet during the burst
	var trialNodes []*Actor
	for _, a := range w.Actors {
		if strings.HasPrefix(startHolder[a.ID], "node:") {
			trialNodes = append(trialNodes, a)
		}
	}
	for _, a := range w.Actors {
		if initial[holder(a.ID)].Sign() == 0 {
			s.Probe("c10.node_without_balance_record_enters_burst")
			break
		}
	}
	ledBefore, _, _ := w.LedgerSum()
	lastSeen := map[string]time.Time{}
	for _, a := range clients {
		n, _ := w.Inner.GetNode(store.NodeID(a.ID))
		lastSeen[a.ID] = n.LastSeen
	}

	// --- burst (yields on)
	if s.Choose("sched", 3) != 0 {
		s.Sched = kernel.SchedPriority
	}
	s.StallPermille = []int{0, 25, 70}[s.Choose("stallrate", 3)]
	s.SetYield("store", cfg.StoreYields)
	s.SetYield("storeret", 1)
	if cfg.TxnYields && cfg.Driver == "badger" {
		s.SetYield("txn", 2)
	}
	s.SetYield("postwrite", cfg.PostWrite)
	s.SetYield("op", 3)
	burstStart := time.Now()
	nTasks := 2 + s.Choose("ntasks", 7)
	if sameClient {
		nTasks = 2 + s.Choose("nsame", 3)
	}
	// in a third of the runs the burst is built around a node being linked to a wallet (its trial balance moves) while
	// keep-alives credit and debit it
	linking := !firstTouch && !sameClient && len(trialNodes) > 0 && s.Choose("linking", 3) == 0
	var mu sync.Mutex
	var tasks []*burstTask
	for t := 0; t < nTasks; t++ {
		bt := &burstTask{name: fmt.Sprintf("burst%d", t), dupOf: -1, nonce: burstStart.UnixNano() + int64(1+t)}
		bt.a = clients[s.Choose("client", len(clients))]
		k := s.Choose("kind", 11)
		if firstTouch && k > 5 {
			k = 10
		}
		if sameClient {
			k = 0
		}
		if linking && t == 0 {
			k = 8
		}
		switch {
		case k <= 5:
			bt.kind = "update"
		case k <= 7:
			bt.kind = "peer"
		case k == 8:
			bt.kind = "addnode"
		case k == 10:
			// a host's own keep-alive or re-registration: writes the host's node record while clients' keep-alives credit it
			bt.kind = []string{"hostupdate", "hostconnect"}[s.Choose("hostkind", 2)]
			var hosts []*Actor
			for _, h := range w.Actors {
				if h.IsHost {
					hosts = append(hosts, h)
				}
			}
			bt.a = hosts[s.Choose("host", len(hosts))]
			s.Probe("c10.host_" + bt.kind[4:] + "_in_burst")
		default:
			bt.kind = "update"
			if t > 0 {
				if o := tasks[s.Choose("dupof", t)]; o.kind == "update" {
					// a second copy of an earlier task's signed request: same identity, same nonce, same parameters
					bt.dupOf, bt.a, bt.nonce = atoi(o.name[5:]), o.a, o.nonce
				}
			}
		}
		bt.peers = tracked[bt.a.ID]
		if bt.kind == "addnode" {
			if len(trialNodes) == 0 {
				bt.kind = "peer"
			} else {
				bt.target = trialNodes[s.Choose("linktarget", len(trialNodes))]
			}
		}
		tasks = append(tasks, bt)
		// each task gets its own connection so that requests of one identity can overlap
		conn := w.Dial(bt.a)
		s.Go(bt.name, func() {
			s.Gate(bt.name)
			ctx, cancel := context.WithCancel(s.Ctx)
			defer cancel()
			var err error
			reply := ""
			switch bt.kind {
			case "update":
				var resp pool.UpdateResponse
				err = conn.Agent.Call(ctx, &resp, "vipnode_update", bt.a.Signed("vipnode_update", bt.nonce, pool.UpdateRequest{PeerInfo: PeerInfos(bt.peers), BlockNumber: 2})...)
				if err == nil && resp.Balance != nil {
					reply = resp.Balance.Credit.String()
				}
			case "hostupdate":
				var resp pool.UpdateResponse
				err = conn.Agent.Call(ctx, &resp, "vipnode_update", bt.a.Signed("vipnode_update", bt.nonce, pool.UpdateRequest{PeerInfo: nil, BlockNumber: 3})...)
			case "hostconnect":
				var resp pool.ConnectResponse
				err = conn.Agent.Call(ctx, &resp, "vipnode_connect", bt.a.Signed("vipnode_connect", bt.nonce, bt.a.ConnectReq("", ""))...)
			case "peer":
				var resp pool.PeerResponse
				err = conn.Agent.Call(ctx, &resp, "vipnode_peer", bt.a.Signed("vipnode_peer", bt.nonce, pool.PeerRequest{Num: 1 + len(bt.name)%3})...)
			case "addnode":
				// links a node that is still on its trial balance (it may be credited or debited at
				// this very moment) to the second wallet: its trial credit must move with it
				err = conn.Agent.Call(ctx, nil, "pool_addNode", w.Wallets[1].WSigned("pool_addNode", bt.nonce, bt.target.ID)...)
			}
			mu.Lock()
			bt.ok, bt.err, bt.reply = err == nil, err, reply
			mu.Unlock()
			s.TaskLog(bt.name, "%s(%s nonce+%d) -> %v", bt.kind, bt.a.Name, bt.nonce-burstStart.UnixNano(), err)
		})
	}
	res := s.Drive(kernel.DriveOpts{IdleCap: 30 * time.Second})
	if res == kernel.Stopped {
		return
	}
	if res != kernel.Done {
		if res = s.Drive(kernel.DriveOpts{FIFO: true, IdleCap: 30 * time.Second, MaxSteps: 5000}); res != kernel.Done {
			if res != kernel.Stopped {
				s.Violate("liveness", "concurrent requests never all return", "burst ended %s", res)
			}
			return
		}
	}
	s.Drive(kernel.DriveOpts{FIFO: true, Quiet: true, IdleCap: time.Millisecond, MaxSteps: 2000})
	burstDur := time.Since(burstStart)

	// ---------------- oracles at quiescence
	var errs []string
	acked := map[string]int{}
	failed := false
	linked := false
	for _, bt := range tasks {
		if bt.err != nil {
			errs = append(errs, bt.name+": "+bt.err.Error())
			if strings.Contains(bt.err.Error(), "Transaction Conflict") {
				s.Probe("c10.badger_conflict_surfaced_to_client")
			}
			if !isVerifyFailed(bt.err) {
				failed = true
			}
		}
		if bt.ok && bt.kind == "update" {
			acked[bt.a.ID]++
		}
		if bt.ok && bt.kind == "addnode" {
			linked = true
		}
	}
	if prop == "C10" {
		reg.check(s, "after the burst")
		for _, bt := range tasks {
			if h := reg.handed[bt.a.ID]; bt.reply != "" && h != nil && !h[bt.reply] {
				s.Violate("snapshot", "a balance in a reply is not a value the store handed out", "reply of %s to %s carries credit %s; handed out for it: %v", bt.name, bt.a.Name, bt.reply, keysOf(h))
			}
		}
	}
	if prop == "C10" || prop == "C05" {
		type key struct {
			id    string
			nonce int64
		}
		n := map[key][]string{}
		for _, bt := range tasks {
			if bt.ok {
				k := key{bt.a.ID, bt.nonce}
				if bt.kind == "addnode" {
					k.id = w.Wallets[1].Addr
				}
				n[k] = append(n[k], bt.name)
			}
		}
		for k, l := range n {
			if len(l) > 1 {
				s.Violate("at_most_once", "two copies of one signed request both honoured ("+cfg.Driver+" driver)", "identity %s nonce +%d honoured %d times: %v", w.N(k.id), k.nonce-burstStart.UnixNano(), len(l), l)
				break
			}
		}
	}
	if prop == "C10" || prop == "C01" {
		ledAfter, getters, err := w.LedgerSum()
		if err == nil {
			if ledAfter.Cmp(getters) != 0 {
				s.Violate("ledger_sum", "Stats().TotalCredit disagrees with the per-account sum after concurrent updates", "Stats %s, getters %s", ledAfter, getters)
			}
			if ledAfter.Cmp(ledBefore) != 0 {
				key := "credit sum changed across concurrent keep-alives"
				if failed {
					key += " (some requests failed)"
				}
				s.Violate("ledger_sum", key+" ("+cfg.Driver+" driver)", "total credit %s before the burst, %s after (delta %s); errors seen: %v", ledBefore, ledAfter, new(big.Int).Sub(ledAfter, ledBefore), errs)
			}
		}
	}
	if (prop == "C10" || prop == "C02") && !s.Violated() {
		// serialisability of the resulting balances: interval arithmetic over the charge
		want := map[string]*holderRange{}
		get := func(h string) *holderRange {
			if want[h] == nil {
				want[h] = &holderRange{new(big.Int), new(big.Int)}
			}
			return want[h]
		}
		var summary []string
		for _, a := range clients {
			summary = append(summary, fmt.Sprintf("%s:%d", a.Name, acked[a.ID]))
			if acked[a.ID] == 0 {
				continue
			}
			e := burstStart.Sub(lastSeen[a.ID])
			lo := creditFor(e, cfg.Price, cfg.Interval)
			// every acknowledged keep-alive may bill up to the instant its handler read the clock
			// again after stamping the check-in (even a serial execution does): one burst
			// duration of slack per acknowledged keep-alive; a stretch billed twice is seconds, not microseconds
			hi := creditFor(e+burstDur*time.Duration(1+acked[a.ID]), cfg.Price, cfg.Interval)
			uniq := map[string]bool{}
			for _, p := range tracked[a.ID] {
				uniq[p] = true
			}
			n := big.NewInt(int64(len(uniq)))
			ch := get(holder(a.ID))
			ch.lo.Sub(ch.lo, new(big.Int).Mul(hi, n))
			ch.hi.Sub(ch.hi, new(big.Int).Mul(lo, n))
			for p := range uniq {
				ph := get(holder(p))
				ph.lo.Add(ph.lo, lo)
				ph.hi.Add(ph.hi, hi)
			}
		}
		seen := map[string]bool{}
		for _, a := range w.Actors {
			h := holder(a.ID)
			if seen[h] {
				continue
			}
			seen[h] = true
			// what this holder started with: the credit of every start holder whose nodes ended up
			// here (a trial balance migrates with its node), plus the wallet's own prior credit
			init := new(big.Int)
			srcs := map[string]bool{}
			if strings.HasPrefix(h, "acct:") {
				srcs[h] = true
			}
			for _, b := range w.Actors {
				if holder(b.ID) == h {
					srcs[startHolder[b.ID]] = true
				}
			}
			for src := range srcs {
				if v := initial[src]; v != nil {
					init.Add(init, v)
				}
			}
			_ = linked
			delta := new(big.Int).Sub(credit(a.ID), init)
			r := want[h]
			if r == nil {
				r = &holderRange{new(big.Int), new(big.Int)}
			}
			if delta.Cmp(r.lo) < 0 || delta.Cmp(r.hi) > 0 {
				key := "a balance is not what any one-at-a-time order of the acknowledged requests gives"
				twice := false
				for _, n := range acked {
					if n > 1 {
						twice = true
					}
				}
				switch {
				case failed:
					key += " (some requests failed)"
				case twice:
					key += " (two keep-alives of one client overlapped)"
				}
				s.Violate("serialisable", key+" ("+cfg.Driver+" driver)", "%s (holder %s): credit moved by %s, any serial order moves it by %s..%s; acknowledged keep-alives per client: %v; errors: %v", a.Name, short10(h), delta, r.lo, r.hi, summary, errs)
				break
			}
		}
	}
	if (prop == "C10" || prop == "C11") && !s.Violated() {
		// node records: only a registration writes payout, kind, host flag and URI; every re-registration of the
		// burst carries payout "" - whatever the order, a host that re-registered successfully ends with that
		for _, bt := range tasks {
			if bt.kind != "hostconnect" || !bt.ok {
				continue
			}
			n, err := w.Inner.GetNode(store.NodeID(bt.a.ID))
			if err != nil {
				continue
			}
			if n.Payout != "" || !n.IsHost {
				s.Violate("serialisable", "a node record is not what any one-at-a-time order of the acknowledged requests gives ("+cfg.Driver+" driver)", "%s re-registered in the burst with payout \"\" (acknowledged); its record now has payout %q host=%v - a value from before the re-registration; errors: %v", bt.a.Name, n.Payout, n.IsHost, errs)
				break
			}
		}
	}
	s.ProbeN("c10.burst_tasks", nTasks)
}

func atoi(x string) int {
	n := 0
	for _, c := range x {
		if c < '0' || c > '9' {
			break
		}
		n = n*10 + int(c-'0')
	}
	return n
}

func keysOf(m map[string]bool) []string {
	var r []string
	for k := range m {
		r = append(r, k)
	}
	sort.Strings(r)
	return r
}

// ------------------------------------------------------------------ C07 racing withdrawals

func runC07Race(s *kernel.Sim) {
	cfg := WorldCfg{Driver: []string{"memory", "badger"}[s.Choose("driver", 2)], Hosts: 1, Clients: 1, Wallets: 1}
	cfg.Interval = time.Second
	cfg.Price = big.NewInt(10)
	cfg.StoreYields = 3
	cfg.TxnYields = s.Choose("txnyields", 2) == 1
	switch s.Choose("feecfg", 3) {
	case 1:
		cfg.Fee, cfg.WithdrawMin = big.NewInt(25), big.NewInt(50)
	case 2:
		cfg.WithdrawMin = big.NewInt(1)
	}
	w := NewWorld(s, cfg)
	s.IdleSteps = []time.Duration{time.Millisecond, 50 * time.Millisecond, time.Second}
	for _, c := range []string{"store", "storeret", "txn"} {
		s.SetYield(c, 0)
	}
	host, client, wl := w.Actors[0], w.Actors[1], w.Wallets[0]
	acc := store.Account(wl.Addr)
	d := NewDirector(w)
	ready := false
	s.Go("director", func() {
		d.Connect(host, "", "", false)
		d.Connect(client, "", "", false)
		d.Update(client, []string{host.ID}, 1)
		d.AddNode(host, wl, host)
		w.Inner.AddAccountBalance(acc, big.NewInt(int64(100+d.choose("credit", 1000))))
		d.Deposit(wl, big.NewInt(int64(d.choose("deposit", 3)*500)))
		d.Advance(time.Duration(2+d.choose("adv", 50)) * time.Second)
		ready = true
	})
	if r := s.Drive(kernel.DriveOpts{IdleCap: time.Hour}); r != kernel.Done || !ready {
		if r != kernel.Stopped {
			s.Violate("liveness", "setup never finishes", "setup ended %s", r)
		}
		return
	}
	b0, _ := w.Dep.GetAccountBalanceDirect(acc)
	total0 := new(big.Int).Add(&b0.Credit, &b0.Deposit)
	for k := 1; k <= 4; k++ {
		if s.Choose("settlefail", 5) == 0 {
			w.Set.FailAt[k] = true
		}
	}
	if s.Choose("sched", 3) != 0 {
		s.Sched = kernel.SchedPriority
	}
	s.StallPermille = []int{0, 25, 70}[s.Choose("stallrate", 3)]
	s.SetYield("store", cfg.StoreYields)
	s.SetYield("storeret", 1)
	s.SetYield("settle", 3)
	if cfg.TxnYields && cfg.Driver == "badger" {
		s.SetYield("txn", 2)
	}
	s.SetYield("op", 3)
	start := time.Now()
	nW := 2 + s.Choose("nwithdraw", 3)
	accrue := s.Choose("accrue", 2) == 1
	var mu sync.Mutex
	oks := 0
	// the same 20 bytes can be written in several ways (a signature is valid for the spelling it was made for): it
	// is one wallet, and requests naming it differently race like any others
	respelled := s.Choose("respelled", 3) == 0
	for t := 0; t < nW; t++ {
		name := fmt.Sprintf("withdraw%d", t)
		conn := w.Dial(host)
		nonce := start.UnixNano() + int64(1+t)
		args := wl.WSigned("pool_withdraw", nonce)
		if respelled {
			spelling := []string{wl.Addr, strings.ToLower(wl.Addr), "0x" + strings.ToUpper(wl.Addr[2:])}[t%3]
			var err error
			if args, err = (request.AddressRequest{Method: "pool_withdraw", Address: spelling, Nonce: nonce}).SignedArgs(wl.Key); err != nil {
				panic(err)
			}
		}
		s.Go(name, func() {
			s.Gate(name)
			ctx, cancel := context.WithCancel(s.Ctx)
			defer cancel()
			err := conn.Agent.Call(ctx, nil, "pool_withdraw", args...)
			mu.Lock()
			if err == nil {
				oks++
			}
			mu.Unlock()
			s.TaskLog(name, "withdraw -> %v", err)
		})
	}
	accruedHi := new(big.Int)
	if accrue {
		conn := w.Dial(client)
		n, _ := w.Inner.GetNode(store.NodeID(client.ID))
		s.Go("keepalive", func() {
			s.Gate("keepalive")
			ctx, cancel := context.WithCancel(s.Ctx)
			defer cancel()
			var resp pool.UpdateResponse
			err := conn.Agent.Call(ctx, &resp, "vipnode_update", client.Signed("vipnode_update", start.UnixNano()+100, pool.UpdateRequest{PeerInfo: PeerInfos([]string{host.ID}), BlockNumber: 3})...)
			s.TaskLog("keepalive", "update(client) -> %v", err)
		})
		accruedHi = creditFor(time.Since(n.LastSeen)+time.Minute, cfg.Price, cfg.Interval)
	}
	res := s.Drive(kernel.DriveOpts{IdleCap: 30 * time.Second})
	if res != kernel.Done {
		if res != kernel.Stopped {
			s.Violate("liveness", "concurrent withdrawals never all return", "ended %s", res)
		}
		return
	}
	s.Drive(kernel.DriveOpts{FIFO: true, Quiet: true, IdleCap: time.Millisecond, MaxSteps: 2000})
	// everything ever paid (plus fees) is covered by what the wallet had and earned
	paid := new(big.Int)
	w.Set.mu.Lock()
	for _, p := range w.Set.Paid {
		paid.Add(paid, p.Amount)
		if cfg.Fee != nil {
			paid.Add(paid, cfg.Fee)
		}
	}
	nPaid := len(w.Set.Paid)
	w.Set.mu.Unlock()
	limit := new(big.Int).Add(total0, accruedHi)
	if paid.Cmp(limit) > 0 {
		s.Violate("withdraw", "racing withdrawals pay the same earnings twice ("+cfg.Driver+" driver)", "wallet had %s (+ at most %s accrued during the race); %d settlements paid %s in total (fees included); %d calls reported success", total0, accruedHi, nPaid, paid, oks)
	}
	if nPaid != oks {
		s.Violate("withdraw", "settlements and acknowledged withdrawals differ", "%d settlements executed, %d calls reported success", nPaid, oks)
	}
	bf, _ := w.Dep.GetAccountBalanceDirect(acc)
	left := new(big.Int).Add(&bf.Credit, &bf.Deposit)
	if left.Sign() < 0 {
		s.Violate("withdraw", "wallet balance negative after racing withdrawals", "deposit %s + credit %s", bf.Deposit.String(), bf.Credit.String())
	}
	if nPaid > 0 && !accrue && left.Sign() != 0 {
		s.Violate("withdraw", "wallet still holds a balance after a successful withdrawal", "deposit %s + credit %s remain after %d settlements", bf.Deposit.String(), bf.Credit.String(), nPaid)
	}
	// conservation with payments: what is left plus what was paid equals what there was plus what accrued
	if !accrue {
		sum := new(big.Int).Add(left, paid)
		if sum.Cmp(total0) != 0 {
			s.Violate("withdraw", "paid + remaining differs from the balance before the race", "before %s; paid (with fees) %s + remaining %s", total0, paid, left)
		}
	}
	s.ProbeN("c07.racing_withdrawals", nW)
}

// ------------------------------------------------------------------ C09 closes racing requests

func runC09Race(s *kernel.Sim) {
	cfg := WorldCfg{Driver: []string{"memory", "memory", "badger"}[s.Choose("driver", 3)], Hosts: 1 + s.Choose("hosts", 3), Clients: 1 + s.Choose("clients", 2), Wallets: 0}
	cfg.Interval, cfg.Price = time.Minute, big.NewInt(1000)
	cfg.PostWrite = s.Choose("postwrite", 2) * 2
	w := NewWorld(s, cfg)
	s.IdleSteps = []time.Duration{time.Millisecond, 50 * time.Millisecond, time.Second}
	s.SetYield("postwrite", 0)
	d := NewDirector(w)
	ready := false
	s.Go("director", func() {
		for _, a := range w.Actors {
			d.Connect(a, "", "", false)
		}
		ready = true
	})
	if r := s.Drive(kernel.DriveOpts{IdleCap: time.Hour}); r != kernel.Done || !ready {
		return
	}
	if s.Choose("sched", 3) != 0 {
		s.Sched = kernel.SchedPriority
	}
	s.StallPermille = []int{0, 25, 70}[s.Choose("stallrate", 3)]
	s.SetYield("postwrite", cfg.PostWrite)
	s.SetYield("op", 3)
	s.SetYield("hostsvc", 2)
	if s.Choose("storeyields", 2) == 1 {
		// registrations, closes and peer requests can also be split at every store call they make
		s.SetYield("store", 2)
		s.SetYield("storeret", 1)
	}
	var mu sync.Mutex
	sharedConns := map[*Conn]bool{} // connections that a second host (tried to) register over: calls on them may be for either
	ambiguous := map[string]bool{}  // hosts whose last registration raced the close of its own connection
	latest := map[string]*Conn{}    // per host: the connection of its last completed registration
	for _, a := range w.Actors {
		if a.IsHost {
			latest[a.ID] = a.Conn
		}
	}
	// host tasks: reconnect on a new connection, then close the old one (or the new one), in a loop
	for _, a := range w.Actors {
		a := a
		if !a.IsHost {
			// clients ask for peers repeatedly
			rounds := 1 + s.Choose("rounds", 4)
			conn := a.Conn
			s.Go("ask:"+a.Name, func() {
				for i := 0; i < rounds; i++ {
					s.Gate("ask:" + a.Name)
					ctx, cancel := context.WithCancel(s.Ctx)
					var resp pool.PeerResponse
					err := conn.Agent.Call(ctx, &resp, "vipnode_peer", a.Signed("vipnode_peer", time.Now().UnixNano(), pool.PeerRequest{Num: 5})...)
					cancel()
					s.TaskLog("ask:"+a.Name, "peer -> %d hosts err=%v", len(resp.Peers), err)
				}
			})
			continue
		}
		rounds := s.Choose("hrounds", 4)
		plan := make([]int, rounds)
		for i := range plan {
			plan[i] = s.Choose("hplan", 5)
		}
		s.Go("life:"+a.Name, func() {
			cur := a.Conn
			for _, what := range plan {
				s.Gate("life:" + a.Name)
				switch what {
				case 0, 1: // reconnect on a new connection, then close the old one
					nc := w.Dial(a)
					ctx, cancel := context.WithCancel(s.Ctx)
					_, err := nc.RP.Connect(ctx, a.ConnectReq("", ""))
					cancel()
					if err == nil {
						mu.Lock()
						latest[a.ID] = nc
						mu.Unlock()
					}
					s.TaskLog("life:"+a.Name, "reconnect on %s -> %v", nc.Name, err)
					s.Gate("life:" + a.Name)
					w.CloseConn(cur)
					s.TaskLog("life:"+a.Name, "close old %s", cur.Name)
					cur = nc
				case 3: // the link drops and the host redials at once: the pool may still be cleaning up the old connection
					w.CloseConn(cur)
					s.TaskLog("life:"+a.Name, "link %s drops", cur.Name)
					nc := w.Dial(a)
					ctx, cancel := context.WithCancel(s.Ctx)
					_, err := nc.RP.Connect(ctx, a.ConnectReq("", ""))
					cancel()
					mu.Lock()
					if err == nil {
						latest[a.ID] = nc
					} else {
						latest[a.ID] = nil
					}
					mu.Unlock()
					s.TaskLog("life:"+a.Name, "redial on %s -> %v", nc.Name, err)
					cur = nc
				case 4: // the link drops while the registration sent on it is still being processed
					nc := w.Dial(a)
					waits := make(chan error, 1)
					s.GoBG("connect:"+nc.Name, func() {
						ctx, cancel := context.WithCancel(s.Ctx)
						_, err := nc.RP.Connect(ctx, a.ConnectReq("", ""))
						cancel()
						waits <- err
					})
					s.Gate("life:" + a.Name)
					w.CloseConn(nc)
					s.TaskLog("life:"+a.Name, "link %s drops with its registration in flight", nc.Name)
					// whether that registration counted is not ours to say: the host is either still on its
					// previous connection or nowhere
					mu.Lock()
					ambiguous[a.ID] = true
					mu.Unlock()
				default: // close the current connection (host goes away)
					w.CloseConn(cur)
					s.TaskLog("life:"+a.Name, "close current %s", cur.Name)
					return
				}
			}
		})
	}
	res := s.Drive(kernel.DriveOpts{IdleCap: 30 * time.Second, Faults: true})
	if res != kernel.Done {
		if res != kernel.Stopped {
			s.Violate("liveness", "requests never all return", "ended %s", res)
		}
		return
	}
	s.Drive(kernel.DriveOpts{FIFO: true, Quiet: true, IdleCap: 10 * time.Millisecond, MaxSteps: 3000})
	// (a) count at quiescence
	want, maybe := 0, 0
	mu.Lock()
	for id, c := range latest {
		if c != nil && !c.Closed {
			if ambiguous[id] {
				maybe++
			} else {
				want++
			}
		}
	}
	mu.Unlock()
	if got := w.Pool.NumRemotes(); got < want || got > want+maybe {
		s.Violate("registry", "count of connected hosts differs from hosts with a live registered connection", "at quiescence NumRemotes=%d, hosts whose latest registered connection is open: %d (+%d whose last registration raced the close of its connection)", got, want, maybe)
	}
	// nobody is registered on a connection that has closed
	for id, c := range w.RegistryConns() {
		if c != nil && c.Closed {
			s.Violate("registry", "a host is registered on a connection that has closed", "at quiescence host %s is registered on %s, which closed (requests that start now would call it)", w.N(id), c.Name)
			break
		}
	}
	// (b) a request the pool read after a connection was unregistered never writes to it;
	// (c) nor to an older connection of a host after the reply to its newer registration was written
	w.mu.Lock()
	defer w.mu.Unlock()
	readSeq := func(requester string, before int64) int64 {
		var best int64
		for _, c := range w.Conns {
			if c.A.ID != requester {
				continue
			}
			for _, r := range c.reqReads {
				if r.Method == "vipnode_peer" && r.Seq < before && r.Seq > best {
					best = r.Seq
				}
			}
		}
		return best
	}
	for _, c := range w.Conns {
		for _, rv := range c.reverse {
			if rv.Method != "vipnode_whitelist" {
				continue
			}
			rs := readSeq(rv.Param0, rv.Seq)
			if sharedConns[c] {
				// more than one host is (or may be) registered here: who a call was meant for is not observable
				if c.Unreg && rs > c.unregSeq {
					s.Violate("instructed", "a request that started after a connection closed still called it", "connection %s was unregistered at #%d; the request of %s read at #%d wrote vipnode_whitelist to it at #%d", c.Name, c.unregSeq, w.N(rv.Param0), rs, rv.Seq)
					return
				}
				continue
			}
			if c.Unreg && rs > c.unregSeq {
				s.Violate("instructed", "a request that started after a connection closed still called it", "connection %s was unregistered at #%d; the request of %s read at #%d wrote vipnode_whitelist to it at #%d", c.Name, c.unregSeq, w.N(rv.Param0), rs, rv.Seq)
				return
			}
			for _, nc := range w.Conns {
				// nc is newer than c only if the pool read nc's registration after it had answered c's (two
				// registrations of one host that overlap inside the pool have no order an observer could rely on;
				// one that was never acknowledged - the link dropped first - has no place in it either)
				var ncRead int64
				for _, r := range nc.reqReads {
					if r.Method == "vipnode_connect" && (ncRead == 0 || r.Seq < ncRead) {
						ncRead = r.Seq
					}
				}
				if nc.A == c.A && nc != c && c.regSeq > 0 && nc.regSeq > 0 && rs > nc.regSeq && ncRead > c.regSeq {
					s.Violate("instructed", "an older connection of a reconnected host was instructed", "host %s re-registered on %s (reply written at #%d); the request of %s read at #%d still wrote to %s", c.A.Name, nc.Name, nc.regSeq, w.N(rv.Param0), rs, c.Name)
					return
				}
			}
		}
	}
}

// ------------------------------------------------------------------ C06 refused requests racing the owner's request

func init() {
	Register(&Scenario{
		Name: "c06_refused_conc", Property: "C06", MaxSteps: 30000, Quick: 300, Thorough: 20000, Race: true,
		Doc:  "the owner's own valid request (pool_withdraw of a wallet, vipnode_update of a client) arrives while one to three refused requests naming the same identity are still being refused (replayed stale nonce with a valid signature, flipped signature byte, signature by another key), interleaved at every store-operation boundary: the refused requests leave no trace, so the owner's request is carried out exactly as if they had never been sent",
		Real: worldReal, Stub: worldStub,
		Run: runC06Conc,
	})
}

func runC06Conc(s *kernel.Sim) {
	cfg := WorldCfg{Driver: []string{"memory", "badger"}[s.Choose("driver", 2)], Hosts: 1, Clients: 1, Wallets: 1}
	cfg.Interval = time.Second
	cfg.Price = big.NewInt(10)
	cfg.StoreYields = 3
	cfg.TxnYields = s.Choose("txnyields", 2) == 1
	if s.Choose("feecfg", 2) == 1 {
		cfg.Fee, cfg.WithdrawMin = big.NewInt(25), big.NewInt(50)
	}
	w := NewWorld(s, cfg)
	s.IdleSteps = []time.Duration{time.Millisecond, 50 * time.Millisecond, time.Second}
	for _, c := range []string{"store", "storeret", "txn"} {
		s.SetYield(c, 0)
	}
	host, client, wl := w.Actors[0], w.Actors[1], w.Wallets[0]
	acc := store.Account(wl.Addr)
	d := NewDirector(w)
	ready := false
	// a nonce below everything the pool accepts from now on: a valid signature over it is a replayed, stale request
	staleWallet := time.Now().UnixNano()
	staleClient := staleWallet
	s.Go("director", func() {
		d.Connect(host, "", "", false)
		d.Connect(client, "", "", false)
		d.Update(client, []string{host.ID}, 1)
		d.AddNode(host, wl, host)
		w.Inner.AddAccountBalance(acc, big.NewInt(int64(100+d.choose("credit", 1000))))
		d.Advance(time.Duration(2+d.choose("adv", 50)) * time.Second)
		ready = true
	})
	if r := s.Drive(kernel.DriveOpts{IdleCap: time.Hour}); r != kernel.Done || !ready {
		if r != kernel.Stopped {
			s.Violate("liveness", "setup never finishes", "setup ended %s", r)
		}
		return
	}
	flavour := []string{"withdraw", "update"}[s.Choose("flavour", 2)]
	b0, _ := w.Dep.GetAccountBalanceDirect(acc)
	total0 := new(big.Int).Add(&b0.Credit, &b0.Deposit)
	cn, _ := w.Inner.GetNode(store.NodeID(client.ID))
	clientBefore, _ := w.Inner.GetNodeBalance(store.NodeID(client.ID))
	if s.Choose("sched", 3) != 0 {
		s.Sched = kernel.SchedPriority
	}
	s.StallPermille = []int{0, 25, 70}[s.Choose("stallrate", 3)]
	s.SetYield("store", cfg.StoreYields)
	s.SetYield("storeret", 1)
	s.SetYield("settle", 2)
	if cfg.TxnYields && cfg.Driver == "badger" {
		s.SetYield("txn", 2)
	}
	s.SetYield("op", 3)
	start := time.Now()
	fresh := start.UnixNano() + 1000
	var mu sync.Mutex
	var ownerErr error
	ownerDone := false
	var refusedErrs []string
	// the owner's request
	{
		conn := w.Dial(host)
		if flavour == "update" {
			conn = w.Dial(client)
		}
		s.Go("owner", func() {
			s.Gate("owner")
			ctx, cancel := context.WithCancel(s.Ctx)
			defer cancel()
			var err error
			if flavour == "withdraw" {
				err = conn.Agent.Call(ctx, nil, "pool_withdraw", wl.WSigned("pool_withdraw", fresh)...)
			} else {
				var resp pool.UpdateResponse
				err = conn.Agent.Call(ctx, &resp, "vipnode_update", client.Signed("vipnode_update", fresh, pool.UpdateRequest{PeerInfo: PeerInfos([]string{host.ID}), BlockNumber: 3})...)
			}
			mu.Lock()
			ownerErr, ownerDone = err, true
			mu.Unlock()
			s.TaskLog("owner", "%s -> %v", flavour, err)
		})
	}
	// the refused ones, sent by somebody else over other connections
	nRef := 1 + s.Choose("nrefused", 3)
	for t := 0; t < nRef; t++ {
		name := fmt.Sprintf("refused%d", t)
		conn := w.Dial(client)
		kind := s.Choose("refusal", 3)
		var method string
		var args []interface{}
		if flavour == "withdraw" {
			method = "pool_withdraw"
			switch kind {
			case 0: // valid signature, nonce already used by this wallet
				args = wl.WSigned(method, staleWallet)
			case 1:
				args = wl.WSigned(method, fresh+int64(1+t))
				args[0] = flipSigByte(args[0].(string), 7+t, true)
			default:
				args = (&Wallet{Key: client.Key, Addr: wl.Addr}).WSigned(method, fresh+int64(1+t))
			}
		} else {
			method = "vipnode_update"
			params := pool.UpdateRequest{PeerInfo: PeerInfos([]string{host.ID}), BlockNumber: 4}
			switch kind {
			case 0:
				args = client.Signed(method, staleClient, params)
			case 1:
				args = client.Signed(method, fresh+int64(1+t), params)
				args[0] = flipSigByte(args[0].(string), 7+t, false)
			default:
				args = (&Actor{Key: host.Key, ID: client.ID}).Signed(method, fresh+int64(1+t), params)
			}
		}
		what := []string{"stale nonce", "flipped signature byte", "signed by another key"}[kind]
		s.Fault("refused_request_racing_owner")
		s.Go(name, func() {
			s.Gate(name)
			ctx, cancel := context.WithCancel(s.Ctx)
			defer cancel()
			var res json.RawMessage
			err := conn.Agent.Call(ctx, &res, method, args...)
			mu.Lock()
			if err == nil {
				refusedErrs = append(refusedErrs, name+" ("+what+"): accepted")
			} else if !isVerifyFailed(err) {
				refusedErrs = append(refusedErrs, name+" ("+what+"): "+err.Error())
			}
			mu.Unlock()
			s.TaskLog(name, "%s (%s) -> %v", method, what, err)
		})
	}
	res := s.Drive(kernel.DriveOpts{IdleCap: 30 * time.Second})
	if res != kernel.Done {
		if res != kernel.Stopped {
			s.Violate("liveness", "concurrent requests never all return", "ended %s", res)
		}
		return
	}
	s.Drive(kernel.DriveOpts{FIFO: true, Quiet: true, IdleCap: time.Millisecond, MaxSteps: 2000})
	if !ownerDone {
		return
	}
	for _, e := range refusedErrs {
		s.Violate("no_trace", "a request that must be refused by verification was not", "%s", e)
		return
	}
	if ownerErr != nil {
		s.Violate("no_trace", "a refused "+flavour+" in flight made the owner's own request fail", "owner's %s with a fresh nonce returned %q while %d refused requests naming the same identity were being refused", flavour, ownerErr, nRef)
		return
	}
	if flavour == "withdraw" {
		w.Set.mu.Lock()
		paid := append([]Payment(nil), w.Set.Paid...)
		w.Set.mu.Unlock()
		want := new(big.Int).Set(total0)
		if cfg.Fee != nil {
			want.Sub(want, cfg.Fee)
		}
		if len(paid) != 1 || paid[0].Amount.Cmp(want) != 0 {
			s.Violate("no_trace", "refused withdrawals changed what the owner's withdrawal paid", "balance %s fee %v: settlements %v", total0, cfg.Fee, paid)
		}
		bf, _ := w.Dep.GetAccountBalanceDirect(acc)
		if left := new(big.Int).Add(&bf.Credit, &bf.Deposit); left.Sign() != 0 {
			s.Violate("no_trace", "wallet not empty after the owner's withdrawal", "deposit %s + credit %s", bf.Deposit.String(), bf.Credit.String())
		}
	} else {
		// exactly one keep-alive was billed: the time since the client's previous one, up to the end of the burst
		after, _ := w.Inner.GetNodeBalance(store.NodeID(client.ID))
		moved := new(big.Int).Sub(&clientBefore.Credit, &after.Credit)
		lo := creditFor(start.Sub(cn.LastSeen), cfg.Price, cfg.Interval)
		hi := creditFor(time.Since(cn.LastSeen), cfg.Price, cfg.Interval)
		if moved.Cmp(lo) < 0 || moved.Cmp(hi) > 0 {
			s.Violate("no_trace", "refused keep-alives changed what the owner's keep-alive was charged", "client debited %s, one keep-alive bills %s..%s", moved, lo, hi)
		}
	}
	s.ProbeN("c06.refused_racing_owner", nRef)
}

// runC10ColdStart: see the scenario's Doc.
func runC10ColdStart(s *kernel.Sim) {
	cfg := WorldCfg{Driver: "memory", Hosts: 1 + s.Choose("hosts", 2), Clients: 2 + s.Choose("clients", 3), Wallets: 1, Interval: time.Second, Price: big.NewInt(1000), StoreYields: 3}
	w := NewWorld(s, cfg)
	for _, c := range []string{"store", "storeret", "txn", "postwrite"} {
		s.SetYield(c, 0)
	}
	d := NewDirector(w)
	setupDone := false
	s.Go("director", func() {
		for _, a := range w.Actors {
			d.Connect(a, "", "", false)
			w.Inner.AddNodeBalance(store.NodeID(a.ID), big.NewInt(1000000))
		}
		d.Advance(time.Duration(1+d.choose("adv", 50)) * time.Second)
		setupDone = true
	})
	if r := s.Drive(kernel.DriveOpts{IdleCap: time.Hour}); r != kernel.Done || !setupDone {
		if r != kernel.Stopped {
			s.Violate("liveness", "setup never finishes", "setup ended %s", r)
		}
		return
	}
	// the pool process starts here as far as billing goes
	w.Pool.BalanceManager = balance.PayPerInterval(w.Dep, cfg.Interval, cfg.Price)
	s.SetYield("store", cfg.StoreYields)
	s.SetYield("storeret", 1)
	s.SetYield("op", 3)
	host := w.Actors[0].ID
	errs := make([]error, len(w.Actors)) // one slot per task: nothing of the harness is shared between them
	acked := 0
	for i, a := range w.Actors {
		if a.IsHost {
			continue
		}
		a := a
		acked++
		conn := w.Dial(a)
		nonce := time.Now().UnixNano() + 1
		s.Go("first."+a.Name, func() {
			s.Gate(a.Name)
			var resp pool.UpdateResponse
			errs[i] = conn.Agent.Call(s.Ctx, &resp, "vipnode_update", a.Signed("vipnode_update", nonce, pool.UpdateRequest{PeerInfo: PeerInfos([]string{host}), BlockNumber: 2})...)
		})
	}
	if r := s.Drive(kernel.DriveOpts{IdleCap: time.Minute}); r != kernel.Done {
		if r != kernel.Stopped {
			s.Violate("liveness", "first keep-alives never finish", "burst ended %s", r)
		}
		return
	}
	for i, err := range errs {
		if err != nil {
			s.Violate("state", "first keep-alive of a registered, funded client refused", "%s: %v", w.Actors[i].Name, err)
		}
	}
	s.MarkNontrivial()
	s.ProbeN("c10.cold_start_keepalives", acked)
}

// runC02FailedUpdateVsConnect: see the scenario's Doc.
func runC02FailedUpdateVsConnect(s *kernel.Sim) {
	cfg := WorldCfg{Driver: []string{"memory", "badger"}[s.Choose("driver", 2)], Hosts: 1, Clients: 1, Wallets: 0, Interval: time.Minute, Price: big.NewInt(1000), StoreYields: 3}
	w := NewWorld(s, cfg)
	for _, c := range []string{"store", "storeret", "txn", "postwrite"} {
		s.SetYield(c, 0)
	}
	d := NewDirector(w)
	var host, client *Actor
	for _, a := range w.Actors {
		if a.IsHost {
			host = a
		} else {
			client = a
		}
	}
	setupDone := false
	s.Go("director", func() {
		d.Connect(host, "", "", false)
		d.Connect(client, "", "", false)
		w.Inner.AddNodeBalance(store.NodeID(client.ID), big.NewInt(100000000))
		d.Update(client, []string{host.ID}, 1)
		d.Advance(time.Duration(2+d.choose("adv", 20)) * 30 * time.Second)
		d.Update(host, nil, 2) // the host stays fresh
		setupDone = true
	})
	if r := s.Drive(kernel.DriveOpts{IdleCap: time.Hour}); r != kernel.Done || !setupDone {
		if r != kernel.Stopped {
			s.Violate("liveness", "setup never finishes", "setup ended %s", r)
		}
		return
	}
	// what the store is asked, in order (the two requests are told apart by the order of their own calls)
	type rec struct {
		op  string
		seq int
	}
	var trace []rec
	var tmu sync.Mutex
	w.YS.Trace = func(r seams.OpRecord) {
		tmu.Lock()
		trace = append(trace, rec{r.Op, len(trace)})
		tmu.Unlock()
	}
	// the keep-alive's credit to the host is going to fail
	w.YS.FailPermille = map[string]int{"AddNodeBalance": 1000}
	w.YS.FailBudget = 1
	s.SetYield("store", cfg.StoreYields)
	s.SetYield("storeret", 1)
	s.SetYield("op", 3)
	connU := w.Dial(client)
	connK := w.Dial(client)
	base := time.Now().UnixNano()
	var errU, errK error
	var k0, k1 time.Time
	s.Go("keepalive", func() {
		s.Gate("keepalive")
		var resp pool.UpdateResponse
		errU = connU.Agent.Call(s.Ctx, &resp, "vipnode_update", client.Signed("vipnode_update", base+1, pool.UpdateRequest{PeerInfo: PeerInfos([]string{host.ID}), BlockNumber: 3})...)
	})
	s.Go("register", func() {
		s.Gate("register")
		k0 = time.Now()
		var resp pool.ConnectResponse
		errK = connK.Agent.Call(s.Ctx, &resp, "vipnode_connect", client.Signed("vipnode_connect", base+2, client.ConnectReq("", ""))...)
		k1 = time.Now()
	})
	if r := s.Drive(kernel.DriveOpts{IdleCap: time.Minute}); r != kernel.Done {
		if r != kernel.Stopped {
			s.Violate("liveness", "requests never finish", "ended %s", r)
		}
		return
	}
	w.YS.Trace = nil
	s.MarkNontrivial()
	if errK != nil || errU == nil || isLowBalance(errU) || isVerifyFailed(errU) || isVerifyFailed(errK) {
		return // not the case this scenario is about (nonce order, or the keep-alive did not reach the failing call)
	}
	// order of the registration's SetNode and the keep-alive's check-in: UpdateNodePeers saves it, the GetNode that
	// follows is where the keep-alive learns what was saved
	setNode, checkin, readBack := -1, -1, -1
	for _, r := range trace {
		if r.op == "SetNode" && setNode < 0 {
			setNode = r.seq
		}
		if r.op == "UpdateNodePeers" && checkin < 0 {
			checkin = r.seq
		}
		if r.op == "GetNode" && checkin >= 0 && readBack < 0 {
			readBack = r.seq
		}
	}
	if checkin < 0 || setNode < 0 {
		return
	}
	if readBack < 0 || setNode < readBack {
		// the registration was saved before the keep-alive knew its own check-in: it cannot tell the two apart (or
		// puts back the check-in it read at its start, which is from before the registration) - not repairable
		// without an atomic operation in the store (DESIGN 7, review R1); not judged
		s.Probe("c02.registration_saved_before_the_failing_keepalive_knew_its_checkin")
		return
	}
	// ... and not inside the two store calls with which the failed keep-alive puts its old check-in back either
	// (read the record, write it: the same limitation)
	lastGet, sets := -1, []int{}
	for _, r := range trace {
		if r.op == "GetNode" {
			lastGet = r.seq
		}
		if r.op == "SetNode" {
			sets = append(sets, r.seq)
		}
	}
	if len(sets) == 2 && lastGet < sets[0] {
		s.Probe("c02.registration_saved_between_the_read_and_the_write_of_the_restore")
		return
	}
	s.Probe("c02.registration_saved_while_the_failing_keepalive_was_past_its_checkin")
	n, err := w.Inner.GetNode(store.NodeID(client.ID))
	if err != nil {
		panic(err)
	}
	if n.LastSeen.Before(k0) || n.LastSeen.After(k1) {
		s.Violate("all_or_nothing", "a failed keep-alive put an old check-in over the one of a registration that was accepted meanwhile", "keep-alive failed (%v), registration accepted between %s and %s; the client's check-in is now %s: the next keep-alive bills %s that lie before the registration", errU, k0.Format("15:04:05.000000"), k1.Format("15:04:05.000000"), n.LastSeen.Format("15:04:05.000000"), k0.Sub(n.LastSeen))
	}
}
