package scen

import (
	"context"
	"fmt"
	"math/big"
	"net"
	"net/url"
	"sort"
	"strconv"
	"strings"
	"time"

	"github.com/vipnode/vipnode/v2/ethnode"
	"github.com/vipnode/vipnode/v2/pool"
	"github.com/vipnode/vipnode/v2/pool/store"
)

// Director drives a World one operation at a time (sequential configuration)
// and compares every reply and the stored state with the model of the
// property statements (w.Ref + the rules below).
type Director struct {
	W    *World
	name string
	on   map[string]bool // oracle groups (property ids) that report in this scenario
	n    int
	// faultWithdrawOnly: storage errors are armed only while a withdrawal is in flight
	faultWithdrawOnly bool
	// faultBigUpdateOnly: storage errors are armed only while a keep-alive that reports two or more different peers is in flight
	faultBigUpdateOnly bool
	// faultConnectOnly: ... only while a registration is in flight
	faultConnectOnly bool
	// lastNonce per identity (director-side monotone nonces)
	lastNonce map[string]int64
	// lastOld: argument list of the identity's last accepted old-format keep-alive (for replays)
	lastOld map[string][]interface{}
	// tamper: node id placed in the unsigned peers_info of an old-format keep-alive
	tamper string
	// desync: an operation the model knows nothing about took effect (an
	// altered request was accepted while the deciding oracle belongs to
	// another property): the run ends quietly
	desync bool
	// keySuffix marks the violations of a scenario whose fault model goes beyond what the code can be expected to
	// survive, so that they are told apart from the same oracle firing elsewhere
	keySuffix string
}

func NewDirector(w *World, props ...string) *Director {
	d := &Director{W: w, name: "director", on: map[string]bool{}, lastNonce: map[string]int64{}, lastOld: map[string][]interface{}{}}
	for _, p := range props {
		d.on[p] = true
	}
	return d
}

func (d *Director) choose(tag string, n int) int { return d.W.S.TaskChoose(d.name, tag, n) }

// bad reports an oracle failure if the oracle's property is the one this scenario decides.
func (d *Director) bad(prop, oracle, key, format string, a ...interface{}) {
	if !d.on[prop] {
		return
	}
	d.W.S.Violate(oracle, key, format, a...)
}

func (d *Director) logf(format string, a ...interface{}) {
	d.W.S.TaskLog(d.name, format, a...)
}

func (d *Director) ctx() (context.Context, context.CancelFunc) {
	return context.WithCancel(d.W.S.Ctx)
}

func (d *Director) nonce(id string) int64 {
	n := time.Now().UnixNano()
	if n <= d.lastNonce[id] {
		n = d.lastNonce[id] + 1
	}
	d.lastNonce[id] = n
	return n
}

// ---------------------------------------------------------------- helpers on the model

func (d *Director) minBalance() *big.Int { return d.W.Cfg.MinBalance }

// modelSpendable is deposit + credit of a node according to the model.
func (d *Director) modelSpendable(id string) *big.Int {
	b, err := d.W.Ref.GetNodeBalance(store.NodeID(id))
	if err != nil {
		return new(big.Int)
	}
	t := new(big.Int).Set(b.Credit)
	if b.Account != "" {
		t.Add(t, d.W.Dep.dep(b.Account))
	}
	return t
}

// expectedURI is the C19 rule: user = authenticated id; host = supplied host
// else the connection's host; port = supplied port else 30303.
func expectedURI(override, nodeID, connAddr string) (hostport string, refuse bool) {
	host, port := "", "30303"
	if h, _, err := net.SplitHostPort(connAddr); err == nil {
		host = h
	} else {
		host = strings.Trim(connAddr, "[]")
	}
	if override != "" {
		u, err := url.Parse(override)
		if err != nil {
			return "", true
		}
		bare := false
		if h := u.Hostname(); u.User == nil && len(h) == 128 && isHex(h) {
			// "enode://<id>" - an id without an address (what the agent-side parser calls the id-only form): it
			// names an identity, not a host
			if h != nodeID {
				return "", true
			}
		} else if ip := net.ParseIP(u.Host); ip != nil && strings.Contains(u.Host, ":") {
			// an IPv6 address without brackets is an address without a port, whatever its last group looks like
			if !ip.IsUnspecified() {
				host = u.Host
			}
			bare = true
		} else if h != "" {
			bareH := h
			if i := strings.IndexByte(h, '%'); i >= 0 {
				bareH = h[:i] // a zone says which link, not which address
			}
			ip := net.ParseIP(bareH)
			if ip == nil && strings.Contains(h, ":") {
				return "", true // colons, but no IPv6 address: neither an address nor a name
			}
			if ip == nil || !ip.IsUnspecified() {
				host = h
			}
		}
		if p := u.Port(); p != "" && !bare {
			port = p
		}
		if un := u.User.Username(); un != "" && !strings.EqualFold(un, nodeID) {
			return "", true
		}
	}
	if ip := net.ParseIP(host); host == "" || (ip != nil && ip.IsUnspecified()) {
		return "", true
	}
	if n, err := strconv.Atoi(port); err != nil || n < 1 || n > 65535 {
		return "", true // not an address anybody can dial
	}
	return net.JoinHostPort(host, port), false
}

func isHex(x string) bool {
	for _, c := range x {
		if !(c >= '0' && c <= '9' || c >= 'a' && c <= 'f' || c >= 'A' && c <= 'F') {
			return false
		}
	}
	return x != ""
}

func isLowBalance(err error) bool {
	return err != nil && strings.Contains(err.Error(), "low balance error")
}

func isVerifyFailed(err error) bool {
	return err != nil && strings.Contains(err.Error(), "failed to verify signature")
}

// parseLowBalance extracts the reported current balance from the error text
// ("Current balance (X) is less than the required minimum (Y)").
func parseLowBalance(err error) (cur, min *big.Int) {
	s := err.Error()
	i := strings.Index(s, "Current balance (")
	j := strings.Index(s, ") is less than the required minimum (")
	if i < 0 || j < 0 {
		return nil, nil
	}
	cur, _ = new(big.Int).SetString(s[i+len("Current balance ("):j], 10)
	rest := s[j+len(") is less than the required minimum ("):]
	if k := strings.Index(rest, ")"); k >= 0 {
		min, _ = new(big.Int).SetString(rest[:k], 10)
	}
	return
}

// ---------------------------------------------------------------- ledger oracle (C01)

type ledgerSnap struct{ stats, getters *big.Int }

func (d *Director) ledger() ledgerSnap {
	st, g, err := d.W.LedgerSum()
	if err != nil {
		panic("ledger read: " + err.Error())
	}
	return ledgerSnap{st, g}
}

// balances is the stored credit of every actor and wallet (inner store, no yields, no injected faults).
func (d *Director) balances() string {
	var b strings.Builder
	for _, a := range d.W.Actors {
		bal, err := d.W.Inner.GetNodeBalance(store.NodeID(a.ID))
		if err == nil {
			fmt.Fprintf(&b, "%s: %s\n", a.Name, balStr(bal))
		}
	}
	for _, wl := range d.W.Wallets {
		bal, _ := d.W.Inner.GetAccountBalance(store.Account(wl.Addr))
		fmt.Fprintf(&b, "%s: %s\n", wl.Name, balStr(bal))
	}
	return b.String()
}

// checkLedger: after an operation that returned, the sum is unchanged
// (delta = 0) or, for a successful withdrawal, changed by minus the settled credit.
func (d *Director) checkLedger(before ledgerSnap, op string, wantDelta *big.Int, class string) {
	after := d.ledger()
	if after.stats.Cmp(after.getters) != 0 {
		d.bad("C01", "ledger_sum", "Stats().TotalCredit disagrees with the per-account sum", "after %s: Stats total %s, sum over getters %s", op, after.stats, after.getters)
	}
	got := new(big.Int).Sub(after.getters, before.getters)
	if got.Cmp(wantDelta) != 0 {
		d.bad("C01", "ledger_sum", "sum of credit changes across "+class+d.keySuffix, "%s: total credit went from %s to %s (delta %s, expected %s)", op, before.getters, after.getters, got, wantDelta)
	}
}

// compareState compares the stored state of every actor and wallet with the model.
func (d *Director) compareState(balProp, op string) {
	w := d.W
	for _, a := range w.Actors {
		nid := store.NodeID(a.ID)
		nr, er := w.Ref.GetNode(nid)
		n, e := w.Inner.GetNode(nid)
		if (e == nil) != (er == nil) {
			d.bad("C11", "state", "node registration differs from the model", "after %s: node %s stored err=%v, model err=%v", op, a.Name, e, er)
			continue
		}
		if e != nil {
			continue
		}
		if n.IsHost != nr.IsHost || n.Kind != nr.Kind || n.URI != nr.URI || !n.LastSeen.Equal(nr.LastSeen) {
			rp := "C11"
			if n.URI != nr.URI {
				rp = "C19"
			}
			d.bad(rp, "state", "node record differs from the model", "after %s: node %s stored {host=%v kind=%q uri=%q seen=%s}, model {host=%v kind=%q uri=%q seen=%s}", op, a.Name, n.IsHost, n.Kind, n.URI, n.LastSeen.Format("15:04:05.000000000"), nr.IsHost, nr.Kind, nr.URI, nr.LastSeen.Format("15:04:05.000000000"))
		}
		ps, _ := w.Inner.NodePeers(nid)
		pr, _ := w.Ref.NodePeers(nid)
		if !sameStrs(idsOfNodes(ps), idsOf(pr)) {
			d.bad("C11", "state", "tracked peers differ from the model", "after %s: node %s tracks %v, model %v", op, a.Name, w.names(idsOfNodes(ps)), w.names(idsOf(pr)))
		}
		b, _ := w.Inner.GetNodeBalance(nid)
		br, _ := w.Ref.GetNodeBalance(nid)
		if b.Account != br.Account || b.Credit.Cmp(br.Credit) != 0 {
			d.bad(balProp, "state", "balance differs from the model", "after %s: node %s balance %s, model {account=%q credit=%s}", op, a.Name, balStr(b), br.Account, br.Credit)
		}
	}
	for _, wl := range w.Wallets {
		b, _ := w.Inner.GetAccountBalance(store.Account(wl.Addr))
		br := w.Ref.GetAccountBalance(store.Account(wl.Addr))
		if b.Credit.Cmp(br.Credit) != 0 {
			d.bad(balProp, "state", "wallet balance differs from the model", "after %s: wallet %s credit %s, model %s", op, wl.Name, b.Credit.String(), br.Credit)
		}
	}
}

func (w *World) names(ids []string) []string {
	r := make([]string, len(ids))
	for i, x := range ids {
		r[i] = w.N(x)
	}
	sort.Strings(r)
	return r
}

// resyncNode adopts the stored record of a node into the model (used where
// the statements leave the record unspecified, e.g. the instant a handler stamps).
func (d *Director) resyncSeen(id string, t0, t1 time.Time, op string) {
	n, err := d.W.Inner.GetNode(store.NodeID(id))
	if err != nil {
		return
	}
	if n.LastSeen.Before(t0) || n.LastSeen.After(t1) {
		d.bad("C02", "state", "check-in stamped outside the operation", "%s: LastSeen %s not within the operation [%s, %s]", op, n.LastSeen.Format("15:04:05.000000000"), t0.Format("15:04:05.000000000"), t1.Format("15:04:05.000000000"))
	}
	m := d.W.Ref.Nodes[store.NodeID(id)]
	m.LastSeen = n.LastSeen
	d.W.Ref.Nodes[store.NodeID(id)] = m
}

// ---------------------------------------------------------------- operations

// Connect registers (or re-registers) the actor over its current connection.
func (d *Director) Connect(a *Actor, payout, override string, legacy bool) error {
	w := d.W
	d.n++
	if a.Conn == nil || a.Conn.Closed {
		w.Dial(a)
	}
	op := fmt.Sprintf("#%d connect(%s on %s payout=%q override=%q legacy=%v)", d.n, a.Name, a.Conn.Name, short10(payout), override, legacy)
	led := d.ledger()
	spend := d.modelSpendable(a.ID)
	t0 := time.Now()
	ctx, cancel := d.ctx()
	defer cancel()
	var err error
	var hostsGot []store.Node
	if d.faultConnectOnly {
		w.YS.SetDisarmed(false)
		defer w.YS.SetDisarmed(true)
	}
	switch {
	case legacy && a.IsHost:
		_, err = a.rp().Host(ctx, pool.HostRequest{Kind: a.Kind, Payout: payout, NodeURI: override})
	case legacy:
		var r *pool.ClientResponse
		r, err = a.rp().Client(ctx, pool.ClientRequest{Kind: a.Kind})
		if r != nil {
			hostsGot = r.Hosts
		}
	default:
		_, err = a.rp().Connect(ctx, a.ConnectReq(payout, override))
	}
	t1 := time.Now()
	d.logf("%s -> %v", op, err)
	_ = hostsGot

	if err != nil && strings.Contains(err.Error(), "injected I/O error") {
		// the registration failed on a storage error: the host is not registered by it (its previous registration,
		// if any, stands)
		if d.on["C09"] {
			d.checkRegistry(op + " (failed: " + err.Error() + ")")
		}
		d.desync = true // what the failed attempt left in the store is not modelled: the run ends here
		return err
	}
	if isVerifyFailed(err) {
		d.bad("C04", "verify", "correctly signed fresh request refused", "%s: %v", op, err)
		d.checkLedger(led, op, new(big.Int), "a refused request")
		return err
	}
	// --- model
	wantURI := ""
	refuseURI := false
	if a.IsHost {
		var hp string
		hp, refuseURI = expectedURI(override, a.ID, a.Addr)
		wantURI = "enode://" + a.ID + "@" + hp
	}
	if refuseURI {
		if err == nil {
			d.bad("C19", "host_uri", "registration with an undeterminable or foreign address accepted", "%s accepted; stored URI %q", op, d.storedURI(a.ID))
		}
		d.checkLedger(led, op, new(big.Int), "a refused connect")
		d.compareState("C02", op)
		return err
	}
	kind := a.Kind
	node := store.Node{ID: store.NodeID(a.ID), Kind: kind, IsHost: a.IsHost, Payout: store.Account(payout), URI: wantURI, NodeVersion: "Geth/sim", VipnodeVersion: "sim/1"}
	if legacy {
		node.NodeVersion, node.VipnodeVersion = "", ""
	}
	if a.IsHost && err == nil {
		// the statement fixes what the stored address parses back to, not its spelling (an IPv6 zone must be
		// escaped inside a URI): the model takes the stored spelling when it means the expected address
		if su := d.storedURI(a.ID); su != wantURI {
			if hp, _ := expectedURI(override, a.ID, a.Addr); uriMeans(su, a.ID, hp) {
				node.URI = su
			}
		}
	}
	w.Ref.SetNode(node)
	if a.IsHost {
		w.Reg[a.ID] = a.Conn
	} else {
		delete(w.Reg, a.ID) // it is no host (any more): no connection speaks for it as one
	}
	d.resyncSeen(a.ID, t0, t1, op)
	low := d.minBalance() != nil && !a.IsHost && spend.Cmp(d.minBalance()) < 0
	switch {
	case low:
		if !isLowBalance(err) {
			d.bad("C03", "min_balance", "client below the minimum is not refused at connect", "%s: spendable %s < min %s but got err=%v", op, spend, d.minBalance(), err)
		} else if cur, _ := parseLowBalance(err); cur == nil || cur.Cmp(spend) != 0 {
			d.bad("C03", "min_balance", "connect refusal reports a balance that is not the stored one", "%s: error says %v, stored spendable balance %s", op, cur, spend)
		}
	case isLowBalance(err):
		who := "client at or above the minimum refused at connect"
		if a.IsHost {
			who = "full-node host refused for its balance at connect"
		}
		d.bad("C03", "min_balance", who, "%s: spendable %s, min %v, got %v", op, spend, d.minBalance(), err)
	case err != nil && !(legacy && !a.IsHost):
		d.bad("C04", "verify", "correctly signed fresh request refused", "%s: %v", op, err)
	}
	if a.IsHost && err == nil {
		d.checkURI(a, override, op)
	}
	d.checkLedger(led, op, new(big.Int), "a connect")
	d.compareState("C02", op)
	if d.on["C09"] {
		d.checkRegistry(op)
	}
	return err
}

func (d *Director) storedURI(id string) string {
	n, err := d.W.Inner.GetNode(store.NodeID(id))
	if err != nil {
		return ""
	}
	return n.URI
}

// checkURI is the C19 oracle on what was stored for a host.
func (d *Director) checkURI(a *Actor, override, op string) {
	uri := d.storedURI(a.ID)
	want, _ := expectedURI(override, a.ID, a.Addr)
	wh, wp, _ := net.SplitHostPort(want)
	class := uriClass(override, a.Addr)
	pu, err := ethnode.ParseNodeURI(uri)
	if err != nil {
		d.bad("C19", "host_uri", "stored URI does not parse with the agent-side parser ("+class+")", "%s: stored %q: %v", op, uri, err)
		return
	}
	if pu.ID() != a.ID {
		d.bad("C19", "host_uri", "stored URI carries another identity ("+class+")", "%s: stored %q has id %s, authenticated id %s", op, uri, short10(pu.ID()), short10(a.ID))
	}
	u := (*url.URL)(pu)
	h, p, err := net.SplitHostPort(u.Host)
	if err != nil {
		d.bad("C19", "host_uri", "stored host:port does not split ("+class+")", "%s: stored %q: host part %q: %v (want %s)", op, uri, u.Host, err, want)
		return
	}
	if h != wh || p != wp {
		d.bad("C19", "host_uri", "stored address differs from the supplied / connection address ("+class+")", "%s: stored %q -> %s:%s, want %s:%s", op, uri, h, p, wh, wp)
	}
}

// uriMeans: uri parses (agent-side parser) to the given identity and host:port.
func uriMeans(uri, id, hostport string) bool {
	pu, err := ethnode.ParseNodeURI(uri)
	if err != nil || pu.ID() != id {
		return false
	}
	h, p, err := net.SplitHostPort((*url.URL)(pu).Host)
	wh, wp, err2 := net.SplitHostPort(hostport)
	return err == nil && err2 == nil && h == wh && p == wp
}

func uriClass(override, addr string) string {
	c := "no override"
	if override != "" {
		c = "override"
		if u, err := url.Parse(override); err == nil && strings.Contains(u.Hostname(), ":") {
			c = "override with IPv6 literal"
		}
	}
	if h, _, err := net.SplitHostPort(addr); err == nil && strings.Contains(h, ":") {
		c += ", IPv6 source"
	}
	return c
}

// oldUpdatePayload is what agents of older versions sign for vipnode_update
// (the pool still accepts it): only the peers and block_number fields.
type oldUpdatePayload struct {
	Peers       []string `json:"peers"`
	BlockNumber uint64   `json:"block_number"`
}

// Update sends a keep-alive reporting the given peer ids.
func (d *Director) Update(a *Actor, reported []string, block uint64) (*pool.UpdateResponse, error) {
	return d.update(a, reported, block, false)
}

// UpdateOld sends a keep-alive signed in the deprecated format.
func (d *Director) UpdateOld(a *Actor, reported []string, block uint64) (*pool.UpdateResponse, error) {
	return d.update(a, reported, block, true)
}

// UpdateOldTampered sends a keep-alive whose deprecated-format signature covers (peers, block_number)
// while its unsigned peers_info names tampered: the pool may act on the signed content only.
func (d *Director) UpdateOldTampered(a *Actor, signedPeers []string, tampered string, block uint64) (*pool.UpdateResponse, error) {
	d.tamper = tampered
	defer func() { d.tamper = "" }()
	return d.update(a, signedPeers, block, true)
}

func (d *Director) update(a *Actor, reported []string, block uint64, oldFormat bool) (*pool.UpdateResponse, error) {
	w := d.W
	d.n++
	if a.Conn == nil || a.Conn.Closed {
		w.Dial(a)
	}
	op := fmt.Sprintf("#%d update(%s peers=%v)", d.n, a.Name, w.names(reported))
	led := d.ledger()
	balBefore := d.balances()
	creditBefore := map[string]*big.Int{}
	for _, x := range w.Actors {
		if _, c, e := w.NodeCredit(x.ID); e == nil {
			creditBefore[x.ID] = c
		}
	}
	var seenBefore time.Time
	if n, e := w.Inner.GetNode(store.NodeID(a.ID)); e == nil {
		seenBefore = n.LastSeen
	}
	hostsBefore := w.nextSeq()
	if d.faultBigUpdateOnly {
		distinct := map[string]bool{}
		for _, r := range reported {
			if r != a.ID {
				distinct[r] = true
			}
		}
		if len(distinct) >= 2 {
			w.YS.SetDisarmed(false)
			defer w.YS.SetDisarmed(true)
		}
	}
	t0 := time.Now()
	ctx, cancel := d.ctx()
	defer cancel()
	var resp *pool.UpdateResponse
	var err error
	if oldFormat {
		op = strings.Replace(op, "update(", "update[old-format signature](", 1)
		nonce := d.nonce(a.ID)
		req := pool.UpdateRequest{Peers: reported, PeerInfo: PeerInfos(reported), BlockNumber: block}
		if d.tamper != "" {
			req.PeerInfo = PeerInfos([]string{d.tamper})
			op = strings.Replace(op, "update(", "update[unsigned peers_info names "+w.N(d.tamper)+"](", 1)
		}
		args := a.Signed("vipnode_update", nonce, oldUpdatePayload{Peers: reported, BlockNumber: block})
		args[3] = req
		// only what the deprecated signature covers may be acted on: (peers, block_number); the pool
		// derives tracked peers from peers_info, which that signature does not cover
		reported = nil
		var r pool.UpdateResponse
		if err = a.Call(ctx, &r, "vipnode_update", args...); err == nil {
			resp = &r
			d.lastOld[a.ID] = args
		}
	} else {
		resp, err = a.rp().Update(ctx, pool.UpdateRequest{PeerInfo: PeerInfos(reported), BlockNumber: block})
	}
	t1 := time.Now()
	d.logf("%s -> %v", op, err)

	if err != nil && !isLowBalance(err) && d.on["C02F"] {
		// a failed keep-alive is all or nothing: no balance moved
		if after := d.balances(); after != balBefore {
			d.W.S.Violate("all_or_nothing", "a keep-alive that failed moved balances", "%s failed with %q but balances changed:\n%s", op, err, diffLines(balBefore, after))
		}
		// ... and the stretch of time it would have billed is still to be billed: the next accepted keep-alive
		// must charge from the previous accepted one, not from the failed one
		if n, e := w.Inner.GetNode(store.NodeID(a.ID)); e == nil && !isVerifyFailed(err) && !seenBefore.IsZero() && !a.IsHost && !n.LastSeen.Equal(seenBefore) {
			d.W.S.Violate("all_or_nothing", "a keep-alive that failed consumed the time it did not bill", "%s failed with %q and moved no balance, but the client's check-in moved from %s to %s: the %s before it will never be charged", op, err, seenBefore.Format("15:04:05.000000"), n.LastSeen.Format("15:04:05.000000"), n.LastSeen.Sub(seenBefore))
		}
	}
	if (err == nil || isLowBalance(err)) && d.on["C02F"] {
		// an accepted keep-alive debits the client by exactly the sum its peers were credited, also when
		// the credit of one peer could not be written
		if after := d.ledger(); after.getters.Cmp(led.getters) != 0 {
			d.W.S.Violate("exact_sum", "an accepted keep-alive debited the client by something other than the sum credited to its peers", "%s: credit sum went from %s to %s; balances:\n%s", op, led.getters, after.getters, diffLines(balBefore, d.balances()))
		}
		// ... and an accepted keep-alive credits each tracked peer, not some of them (judged where nobody involved
		// shares a balance with anybody else involved)
		if ps, e := w.Inner.NodePeers(store.NodeID(a.ID)); e == nil && !a.IsHost && len(ps) > 1 {
			ids := []store.NodeID{store.NodeID(a.ID)}
			for _, p := range ps {
				ids = append(ids, p.ID)
			}
			shared := false
			for i := range ids {
				for j := i + 1; j < len(ids); j++ {
					shared = shared || d.sameBalance(ids[i], ids[j])
				}
			}
			var paid, unpaid []string
			for _, p := range ps {
				_, c, e := w.NodeCredit(string(p.ID))
				if e != nil || creditBefore[string(p.ID)] == nil {
					shared = true
					continue
				}
				if c.Cmp(creditBefore[string(p.ID)]) == 0 {
					unpaid = append(unpaid, w.N(string(p.ID)))
				} else {
					paid = append(paid, w.N(string(p.ID)))
				}
			}
			if !shared && len(paid) > 0 && len(unpaid) > 0 {
				d.W.S.Violate("all_or_nothing", "an accepted keep-alive credited some of the client's peers and not the others", "%s -> %v: credited %v, not credited %v (their time is never billed: the client's check-in has moved on)", op, err, paid, unpaid)
			}
		}
	}
	if isVerifyFailed(err) {
		d.bad("C04", "verify", "correctly signed fresh request refused", "%s: %v", op, err)
		d.checkLedger(led, op, new(big.Int), "a refused request")
		return resp, err
	}
	nid := store.NodeID(a.ID)
	before, regErr := w.Ref.GetNode(nid)
	if regErr != nil {
		if err == nil {
			d.bad("C12", "state", "keep-alive of an unregistered node accepted", "%s", op)
		}
		d.checkLedger(led, op, new(big.Int), "a failed keep-alive")
		d.compareState("C02", op)
		return resp, err
	}
	prevSeen := before.LastSeen
	// the model evaluates the keep-alive at the instant the pool stamped it
	// (somewhere inside [t0,t1]: a silent host can make the call take seconds)
	w.modelNow = t0
	if n, e := w.Inner.GetNode(nid); e == nil && !n.LastSeen.Before(t0) && !n.LastSeen.After(t1) {
		w.modelNow = n.LastSeen
	}
	inactive, boundary, _ := w.Ref.UpdateNodePeers(nid, reported, block)
	// boundary (exactly one window old): follow the implementation
	if len(boundary) > 0 && resp != nil {
		for _, bp := range boundary {
			ev := false
			for _, ip := range resp.InvalidPeers {
				if ip == string(bp) {
					ev = true
				}
			}
			w.Ref.ResolveBoundary(nid, bp, ev)
			if ev {
				inactive = append(inactive, bp)
			}
		}
	}
	d.resyncSeen(a.ID, t0, t1, op)
	active, _ := w.Ref.NodePeers(nid)

	// --- billing (C02): clients pay floor(elapsed*price/interval) per tracked active peer
	charged := new(big.Int)
	credit := new(big.Int)
	bills := false
	if !before.IsHost && len(active) > 0 {
		lo := creditFor(w.modelNow.Sub(prevSeen), w.Cfg.Price, w.Cfg.Interval)
		hi := creditFor(w.modelNow.Add(handlerSlack).Sub(prevSeen), w.Cfg.Price, w.Cfg.Interval)
		// what was actually credited to the first active peer tells which instant the handler used
		got := d.peerDelta(active[0], a.ID, active)
		switch {
		case got == nil:
			credit = lo
		case got.Cmp(lo) >= 0 && got.Cmp(hi) <= 0:
			credit = got
		default:
			credit = lo
			d.bad("C02", "billing", "peer credited an amount that is not elapsed x price / interval", "%s: peer %s credited %s, expected between %s and %s (elapsed %s..%s, price %s per %s)", op, w.N(string(active[0])), got, lo, hi, t0.Sub(prevSeen), t1.Sub(prevSeen), w.Cfg.Price, w.Cfg.Interval)
		}
		if credit.Sign() > 0 {
			bills = true
			for _, p := range active {
				w.Ref.AddNodeBalance(p, credit)
				charged.Add(charged, credit)
			}
			w.Ref.AddNodeBalance(nid, new(big.Int).Neg(charged))
		}
	}
	spendAfter := d.modelSpendable(a.ID)

	low := d.minBalance() != nil && bills && spendAfter.Cmp(d.minBalance()) < 0
	class := "a keep-alive"
	switch {
	case low:
		class = "a low-balance cut-off"
		if !isLowBalance(err) {
			d.bad("C03", "min_balance", "client whose balance fell below the minimum is not cut off", "%s: spendable after the charge %s < min %s but got err=%v", op, spendAfter, d.minBalance(), err)
		} else if cur, _ := parseLowBalance(err); cur == nil || cur.Cmp(spendAfter) != 0 {
			d.bad("C03", "min_balance", "cut-off reports a balance that is not the client's actual balance", "%s: error says %v, actual spendable balance after the charge %s (charge %s)", op, cur, spendAfter, charged)
		}
		d.checkDisconnects(a, active, hostsBefore, op)
	case isLowBalance(err):
		who := "client at or above the minimum cut off"
		if before.IsHost {
			who = "full-node host cut off for its balance"
		} else if !bills {
			who = "client cut off by a keep-alive that bills nothing"
		}
		d.bad("C03", "min_balance", who, "%s: spendable after the charge %s, min %v, charge %s, got %v", op, spendAfter, d.minBalance(), charged, err)
	case err != nil:
		d.bad("C04", "verify", "correctly signed fresh request refused", "%s: %v", op, err)
	}
	if d.tamper != "" {
		if ps, e := w.Inner.NodePeers(nid); e == nil {
			for _, pn := range ps {
				if string(pn.ID) == d.tamper && !containsID(active, pn.ID) {
					d.bad("C04", "verify", "old-format keep-alive acts on the unsigned peers_info", "%s: %s is now a tracked (billable) peer of %s although the signature does not cover it", op, w.N(d.tamper), a.Name)
				}
			}
		}
	}
	if err == nil && resp != nil {
		// reply contents (C11 mapping, C02 balance)
		if !sameStrs(sortedCopy(resp.InvalidPeers), idsOf(inactive)) {
			d.bad("C11", "invalid_peers", "UpdateResponse.InvalidPeers differs from the model", "%s: reply invalid=%v, model %v", op, w.names(resp.InvalidPeers), w.names(idsOf(inactive)))
		}
		var wantURIs []string
		for _, p := range active {
			wantURIs = append(wantURIs, w.Ref.Nodes[p].URI)
		}
		sort.Strings(wantURIs)
		if !sameStrs(sortedCopy(resp.ActivePeers), wantURIs) {
			d.bad("C11", "active_peers", "UpdateResponse.ActivePeers differs from the model", "%s: reply active=%v, model %v", op, resp.ActivePeers, wantURIs)
		}
		if resp.Balance != nil {
			_, cr, _ := w.NodeCredit(a.ID)
			if cr != nil && resp.Balance.Credit.Cmp(cr) != 0 {
				d.bad("C02", "billing", "UpdateResponse.Balance differs from the stored balance", "%s: reply credit %s, stored %s", op, resp.Balance.Credit.String(), cr)
			}
		}
	}
	d.checkLedger(led, op, new(big.Int), class)
	d.compareState("C02", op)
	return resp, err
}

// handlerSlack bounds how long after stamping the check-in the handler may
// read the clock again for the charge in a run without injected handler
// stalls (one microsecond of simulated time passes per scheduling decision).
const handlerSlack = 200 * time.Microsecond

func sortedCopy(x []string) []string {
	r := append([]string(nil), x...)
	sort.Strings(r)
	return r
}

func creditFor(elapsed time.Duration, price *big.Int, interval time.Duration) *big.Int {
	if interval <= 0 {
		return new(big.Int)
	}
	if elapsed <= 0 {
		return new(big.Int) // no time has passed (the check-in lies ahead of the clock): nothing moves
	}
	c := new(big.Int).Mul(big.NewInt(int64(elapsed)), price)
	return c.Quo(c, big.NewInt(int64(interval))) // elapsed and interval >= 0: Quo = floor
}

// peerDelta: how much more credit the peer's balance holds than the model
// (before this update's charge is applied to the model), corrected for the
// case where peer and client share a wallet.
func (d *Director) peerDelta(peer store.NodeID, client string, active []store.NodeID) *big.Int {
	w := d.W
	b, err := w.Inner.GetNodeBalance(peer)
	if err != nil {
		return nil
	}
	br, _ := w.Ref.GetNodeBalance(peer)
	delta := new(big.Int).Sub(&b.Credit, br.Credit)
	// nodes of the same wallet (or the same node listed) share the balance:
	// delta = k*c - [client shares]*n*c
	k := int64(0)
	for _, p := range active {
		if d.sameBalance(p, peer) {
			k++
		}
	}
	f := k
	if d.sameBalance(store.NodeID(client), peer) {
		f -= int64(len(active))
	}
	if f == 0 {
		return nil
	}
	q, r := new(big.Int).QuoRem(delta, big.NewInt(f), new(big.Int))
	if r.Sign() != 0 {
		return delta
	}
	return q
}

func (d *Director) sameBalance(a, b store.NodeID) bool {
	if a == b {
		return true
	}
	la, oka := d.W.Ref.Links[a]
	lb, okb := d.W.Ref.Links[b]
	return oka && okb && la == lb
}

func (d *Director) instrCounts() map[*Conn]int {
	m := map[*Conn]int{}
	for _, c := range d.W.Conns {
		c.Host.mu.Lock()
		m[c] = len(c.Host.Got)
		c.Host.mu.Unlock()
	}
	return m
}

// checkDisconnects: after a cut-off the pool asked (wrote vipnode_disconnect
// on the connection of) every host that peers with the client and whose latest
// registered connection is open.  Whether the network delivered the
// instruction in time is not the pool's doing.
func (d *Director) checkDisconnects(a *Actor, active []store.NodeID, since int64, op string) {
	for _, p := range active {
		c := d.W.Reg[string(p)]
		if c != nil && c.A.Policy == PolicyDeaf {
			continue // it has stopped reading: the instruction cannot even be written to it
		}
		if c == nil || c.Closed {
			continue
		}
		asked := false
		d.W.mu.Lock()
		for _, r := range c.reverse {
			if r.Seq > since && r.Method == "vipnode_disconnect" && r.Param0 == a.ID {
				asked = true
			}
		}
		d.W.mu.Unlock()
		if !asked {
			d.bad("C03", "min_balance", "connected host peering with a cut-off client is not told to disconnect it", "%s: no vipnode_disconnect(%s) was written to host %s (connection %s)", op, a.Name, d.W.N(string(p)), c.Name)
		}
	}
}

// checkRegistry is the C09 count: connected hosts = hosts whose most recently registered connection is open.
func (d *Director) checkRegistry(op string) {
	want := 0
	for _, c := range d.W.Reg {
		if c != nil && !c.Closed {
			want++
		}
	}
	// and each host is registered on exactly its latest live connection
	var wantReg []string
	for id, c := range d.W.Reg {
		if c != nil && !c.Closed {
			wantReg = append(wantReg, d.W.N(id)+"@"+c.Name)
		}
	}
	sort.Strings(wantReg)
	if got := d.W.Registry(); !sameStrs(got, wantReg) && d.W.Pool.NumRemotes() == want {
		d.bad("C09", "registry", "a host is registered on a connection that is not its latest live one", "after %s: registry %v, model %v", op, got, wantReg)
	}
	if got := d.W.Pool.NumRemotes(); got != want {
		d.bad("C09", "registry", "count of connected hosts differs from hosts with a live registered connection", "after %s: NumRemotes=%d, model %d", op, got, want)
	}
}

// Advance lets simulated time pass.
func (d *Director) Advance(g time.Duration) {
	d.n++
	if g >= 120*time.Second {
		d.W.S.Fault("clock_jump_past_expiry_window")
	}
	d.W.S.Sleep(d.name, g)
	d.logf("#%d advance %s", d.n, g)
}

// ClockBack makes the pool's clock lie behind a node's last check-in by the given amount, as after the wall clock was
// stepped back. (The simulated clock cannot go backwards; the check-in is moved forwards instead, in the store and in
// the model. Billing measures from the check-in, so it cannot tell the difference.)
func (d *Director) ClockBack(a *Actor, by time.Duration) {
	w := d.W
	d.n++
	n, err := w.Inner.GetNode(store.NodeID(a.ID))
	if err != nil {
		return
	}
	n.LastSeen = time.Now().Add(by)
	if err := w.Inner.SetNode(*n); err != nil {
		panic(err)
	}
	if rn, err := w.Ref.GetNode(store.NodeID(a.ID)); err == nil {
		rn.LastSeen = n.LastSeen
		w.Ref.Nodes[rn.ID] = *rn
	}
	w.S.Fault("clock_set_back_behind_a_check_in")
	d.logf("#%d the clock is set back: the last check-in of %s is now %s ahead of it", d.n, a.Name, by)
}

// AddNode links a node to a wallet through pool_addNode.
func (d *Director) AddNode(via *Actor, wl *Wallet, node *Actor) error {
	w := d.W
	d.n++
	if via.Conn == nil || via.Conn.Closed {
		w.Dial(via)
	}
	op := fmt.Sprintf("#%d addNode(%s <- %s)", d.n, wl.Name, node.Name)
	led := d.ledger()
	ctx, cancel := d.ctx()
	defer cancel()
	sentID := node.ID
	if alt := respell(node.ID, d.choose("addnode.respell", 8)); alt != node.ID && len(node.ID) == 128 {
		// the node named in another spelling of its id (upper-case hex digits): the same node
		sentID = alt
		op += " [node id as " + alt[:6] + "...]"
	}
	err := via.Call(ctx, nil, "pool_addNode", wl.WSigned("pool_addNode", d.nonce(wl.Addr), sentID)...)
	d.logf("%s -> %v", op, err)
	if isVerifyFailed(err) {
		// refused by the verification step: no effect expected (C04/C06 decide whether that is right)
		d.bad("C04", "verify", "correctly signed fresh request refused", "%s: %v", op, err)
		d.checkLedger(led, op, new(big.Int), "a refused request")
		return err
	}
	if err != nil && strings.Contains(err.Error(), "injected I/O error") {
		// the one storage error of the run: the store refused the call before doing anything, the link was not made
		// (the model must not make it either)
		d.checkLedger(led, op, new(big.Int), "a refused request")
		return err
	}
	merr := w.Ref.AddAccountNode(store.Account(wl.Addr), store.NodeID(node.ID))
	if (err == nil) != (merr == nil) {
		d.bad("C12", "state", "account linking outcome differs from the model", "%s: got %v, model %v", op, err, merr)
	}
	d.checkLedger(led, op, new(big.Int), "an account linking")
	d.compareState("C02", op)
	return err
}

// Deposit sets the on-chain deposit of a wallet (not pool credit).
func (d *Director) Deposit(wl *Wallet, amount *big.Int) {
	d.n++
	d.W.mu.Lock()
	d.W.deposit[store.Account(wl.Addr)] = new(big.Int).Set(amount)
	d.W.mu.Unlock()
	d.logf("#%d deposit(%s = %s)", d.n, wl.Name, amount)
}

// CloseConn closes the actor's current connection and waits until the pool has seen it.
// SharedThenClose registers host b over the connection host a is registered on, then closes that connection: both
// registrations end with it.  (Nothing else is sent in between: two hosts behind one connection make the pool's
// whitelist fan-out write to it from two goroutines at once, whose order no observer can rely on.)
func (d *Director) SharedThenClose(a, b *Actor) {
	if a == b || !a.IsHost || !b.IsHost || a.Conn == nil || a.Conn.Closed || d.W.Reg[a.ID] != a.Conn {
		return
	}
	shared := a.Conn
	old := b.Conn
	b.Conn = shared
	err := d.Connect(b, "", "enode://"+b.ID+"@198.51.100.77:30303", false)
	d.logf("#%d   (host %s registered over %s, the connection of %s: %v)", d.n, b.Name, shared.Name, a.Name, err)
	b.Conn = old
	if d.choose("shared.moveaway", 2) == 1 {
		// ... and before the shared connection goes away, its owner registers again over a new one (the other host
		// still depends on the old connection)
		d.W.Dial(a)
		d.Connect(a, "", "", false)
		d.checkRegistry(fmt.Sprintf("#%d re-registration of %s away from the shared connection", d.n, a.Name))
	}
	d.CloseConn(shared)
}

func (d *Director) CloseConn(c *Conn) {
	d.n++
	d.W.S.Fault("connection_closed")
	d.W.CloseConn(c)
	// the pool notices when the EOF marker is delivered and its serve loop returns
	unreg := func() bool {
		d.W.mu.Lock()
		defer d.W.mu.Unlock()
		return c.Unreg
	}
	for i := 0; i < 50 && !unreg(); i++ {
		d.W.S.Sleep(d.name, time.Millisecond)
	}
	d.logf("#%d close(%s) unregistered=%v", d.n, c.Name, unreg())
	if d.on["C09"] {
		d.checkRegistry(fmt.Sprintf("#%d close(%s)", d.n, c.Name))
	}
}
