package scen

import (
	"bytes"
	"context"
	"encoding/json"
	"fmt"
	"net"
	"net/http"
	"strings"
	"sync"
	"time"

	gobwasws "github.com/gobwas/ws"
	"github.com/gorilla/websocket"
	"github.com/vipnode/vipnode/v2/jsonrpc2"
	wsgobwas "github.com/vipnode/vipnode/v2/jsonrpc2/ws/gobwas"
	wsgorilla "github.com/vipnode/vipnode/v2/jsonrpc2/ws/gorilla"
	"verif/sim/kernel"
	"verif/sim/seams"
)

func init() {
	Register(&Scenario{
		Name: "c17_stream", Property: "C17", MaxSteps: 60000, Quick: 500, Thorough: 30000,
		Doc:  "1-40 JSON-RPC messages (requests, replies, tiny, > 64 KiB, unicode, nested) written through jsonrpc2.IOCodec to a simulated byte stream whose bytes are delivered in seeded chunks (1 byte, inside a message, several messages in one read); the other end's IOCodec must read the same messages, once, intact and in order",
		Real: []string{"jsonrpc2.IOCodec (jsonCodec)"}, Stub: []string{"connection (SimConn byte stream with seeded chunker)"},
		Run: func(s *kernel.Sim) { runC17(s, "stream") },
	})
	Register(&Scenario{
		Name: "c17_gorilla", Property: "C17", MaxSteps: 60000, Quick: 300, Thorough: 20000, Race: true,
		Doc:  "the shipped WebSocket codec: real gorilla dial + net/http server + Upgrader over the simulated byte stream, 1-4 concurrent writers per side, messages in both directions, seeded chunking; per-writer order and content must be preserved; repeated in a -race build (masked hand-offs) so that unsynchronised writers inside the codec or the library are reported",
		Real: []string{"jsonrpc2/ws/gorilla codec + Upgrader", "gorilla/websocket v1.4.2", "net/http server (upgrade path)"}, Stub: []string{"connection (SimConn byte stream with seeded chunker)", "listener / dialer"},
		Run: func(s *kernel.Sim) { runC17(s, "gorilla") },
	})
	Register(&Scenario{
		Name: "c17_gobwas", Property: "C17", MaxSteps: 60000, Quick: 300, Thorough: 20000,
		Doc:  "the gobwas WebSocket codec: real ws.Dial + net/http server + HTTPUpgrader over the simulated byte stream, single writer per side, seeded chunking",
		Real: []string{"jsonrpc2/ws/gobwas codec + Upgrader", "gobwas/ws v1.0.2", "net/http server (hijack path)"}, Stub: []string{"connection (SimConn byte stream with seeded chunker)", "listener / dialer"},
		Run: func(s *kernel.Sim) { runC17(s, "gobwas") },
	})
	Register(&Scenario{
		Name: "c17_http", Property: "C17", MaxSteps: 60000, Quick: 250, Thorough: 15000,
		Doc:  "the HTTP codec: jsonrpc2.HTTPService through a real http.Transport to a real http.Server running jsonrpc2.HTTPServer over the simulated byte stream; 1-3 concurrent callers, each call must get the echo of exactly its own message however request and response bytes are chunked",
		Real: []string{"jsonrpc2.HTTPService", "jsonrpc2.HTTPServer", "net/http client and server"}, Stub: []string{"connection (SimConn byte stream with seeded chunker)", "listener / dialer"},
		Run: runC17HTTP,
	})
}

func genMessage(s *kernel.Sim, writer, i int, small bool) *jsonrpc2.Message {
	m := &jsonrpc2.Message{Version: "2.0"}
	id := fmt.Sprintf("%d", writer*1000+i)
	if s.Choose("idform", 3) == 0 {
		id = fmt.Sprintf("%q", fmt.Sprintf("w%d-%d", writer, i))
	}
	m.ID = json.RawMessage(id)
	var payload interface{}
	switch s.Choose("payload", 7) {
	case 0:
		payload = []interface{}{}
	case 1:
		payload = []interface{}{fmt.Sprintf("w%d-%d", writer, i), i}
	case 2:
		n := 70000 + s.Choose("big", 3000) // > 64 KiB
		if small {
			n = 600 // byte-at-a-time chunking: keep the step count bounded
		}
		payload = []interface{}{strings.Repeat("x", n), i}
	case 3:
		payload = []interface{}{"héllo wörld ✓ 日本語   \" \\ }{][", map[string]interface{}{"k": "}{\"", "n": nil}}
	case 4:
		payload = []interface{}{map[string]interface{}{"a": []interface{}{1, []interface{}{2, map[string]interface{}{"b": []interface{}{}}}}, "s": fmt.Sprint(i)}}
	case 5:
		payload = []interface{}{strings.Repeat("ab", s.Choose("mid", 3000))}
	default:
		payload = []interface{}{i, true, nil, 1.5, "]}"}
	}
	raw, _ := json.Marshal(payload)
	if s.Choose("reqOrResp", 3) == 0 {
		if s.Choose("err", 3) == 0 {
			m.Response = &jsonrpc2.Response{Error: &jsonrpc2.ErrResponse{Code: -32000 - i, Message: fmt.Sprintf("err w%d-%d ✓", writer, i)}}
		} else {
			m.Response = &jsonrpc2.Response{Result: raw}
		}
	} else {
		m.Request = &jsonrpc2.Request{Method: fmt.Sprintf("m_w%d_%d", writer, i), Params: raw}
	}
	return m
}

func canon(m *jsonrpc2.Message) string {
	b, err := json.Marshal(m)
	if err != nil {
		return "marshal error: " + err.Error()
	}
	var v interface{}
	if err := json.Unmarshal(b, &v); err != nil {
		return "unmarshal error: " + err.Error()
	}
	c, _ := json.Marshal(v)
	return string(c)
}

func shortMsg(x string) string {
	if len(x) > 90 {
		return x[:60] + fmt.Sprintf("...(%d bytes)...", len(x)) + x[len(x)-20:]
	}
	return x
}

// writerOf extracts the writer index encoded in a message (id or method).
func writerOf(m *jsonrpc2.Message) int {
	id := strings.Trim(string(m.ID), "\"")
	var w, i int
	if _, err := fmt.Sscanf(id, "w%d-%d", &w, &i); err == nil {
		return w
	}
	var n int
	fmt.Sscanf(id, "%d", &n)
	return n / 1000
}

type direction struct {
	name    string
	from    jsonrpc2.Codec
	to      jsonrpc2.Codec
	writers int
	sent    [][]string // per writer, canonical messages in write order
	got     []string
	gotW    []int
	readErr error
}

func runC17(s *kernel.Sim, kind string) {
	var early []*jsonrpc2.Message
	sizes := [][]int{seams.DefaultChunkSizes, {1, 1, 2, 3}, {0}, {0, 0, 0, 7, 4096}, {1, 0}}[s.Choose("chunking", 5)]
	var a, b jsonrpc2.Codec // a = client side, b = server side
	var closers []func()
	switch kind {
	case "stream":
		ca, cb := seams.ConnPair(s, "A", "B", "10.0.0.1:1", "10.0.0.2:2", sizes)
		a, b = jsonrpc2.IOCodec(ca), jsonrpc2.IOCodec(cb)
	default:
		l := seams.NewListener(s, "192.0.2.1:8080")
		l.Sizes = sizes
		got := make(chan jsonrpc2.Codec, 1)
		hold := make(chan struct{})
		// the server may speak first: messages written right after the upgrade travel behind (or in the same read
		// as) the handshake response
		for k := s.Choose("serverfirst", 4); k > 0 && kind != "stream"; k-- {
			early = append(early, genMessage(s, 0, 500+len(early), false))
		}
		handler := http.HandlerFunc(func(w http.ResponseWriter, r *http.Request) {
			var codec jsonrpc2.Codec
			var err error
			if kind == "gorilla" {
				codec, err = (&wsgorilla.Upgrader{}).Upgrade(r, w, nil)
			} else {
				codec, err = (&wsgobwas.Upgrader{}).Upgrade(r, w, nil)
			}
			if err != nil {
				s.Violate("handshake", "websocket upgrade fails ("+kind+")", "upgrade: %v", err)
				return
			}
			for _, m := range early {
				if err := codec.WriteMessage(m); err != nil {
					s.Violate("write", "WriteMessage fails on an open connection ("+kind+")", "server's first messages: %v", err)
				}
			}
			got <- codec
			<-hold // the production handler keeps the request open while it serves the connection
		})
		srv := &http.Server{Handler: handler}
		s.GoBG("httpserver", func() { srv.Serve(l) })
		closers = append(closers, func() { close(hold); srv.Close() })
		var err error
		dialed := make(chan struct{})
		s.Go("dial", func() {
			defer close(dialed)
			ctx, cancel := context.WithCancel(s.Ctx)
			defer cancel()
			if kind == "gorilla" {
				old := websocket.DefaultDialer.NetDialContext
				websocket.DefaultDialer.NetDialContext = l.DialContext
				defer func() { websocket.DefaultDialer.NetDialContext = old }()
				a, err = wsgorilla.WebSocketDial(ctx, "ws://pool.sim:8080/")
			} else {
				old := gobwasws.DefaultDialer.NetDial
				gobwasws.DefaultDialer.NetDial = l.DialContext
				defer func() { gobwasws.DefaultDialer.NetDial = old }()
				a, err = wsgobwas.WebSocketDial(ctx, "ws://pool.sim:8080/")
			}
		})
		if r := s.Drive(kernel.DriveOpts{IdleCap: time.Second}); r != kernel.Done || err != nil || a == nil {
			if r != kernel.Stopped {
				s.Violate("handshake", "websocket dial fails however the handshake bytes are chunked ("+kind+")", "dial: err=%v drive=%s", err, r)
			}
			for _, c := range closers {
				c()
			}
			return
		}
		select {
		case b = <-got:
		default:
			s.Violate("handshake", "server side never got its codec ("+kind+")", "after dial returned")
			for _, c := range closers {
				c()
			}
			return
		}
	}
	tiny := true
	for _, x := range sizes {
		if x == 0 || x > 64 {
			tiny = false
		}
	}
	s.SetYield("op", 3)
	maxWriters := 1
	if kind == "gorilla" {
		maxWriters = 4 // the shipped codec: concurrent writers must not interleave
	}
	dirs := []*direction{{name: "client->server", from: a, to: b}, {name: "server->client", from: b, to: a}}
	var mu sync.Mutex
	total := len(early)
	for di, d := range dirs {
		d := d
		d.writers = 1 + s.Choose("writers", maxWriters)
		if di == 1 && s.Choose("bothways", 2) == 0 && len(early) == 0 {
			d.writers = 0
		}
		d.sent = make([][]string, d.writers)
		for w := 0; w < d.writers; w++ {
			w := w
			if di == 1 && w == 0 {
				// what the server wrote before anybody else comes first in its own order
				for _, m := range early {
					d.sent[0] = append(d.sent[0], canon(m))
				}
			}
			n := 1 + s.Choose("nmsg", 40/d.writers)
			msgs := make([]*jsonrpc2.Message, n)
			for i := range msgs {
				msgs[i] = genMessage(s, w, i, tiny)
				d.sent[w] = append(d.sent[w], canon(msgs[i]))
			}
			total += n
			name := fmt.Sprintf("write:%s:%d", d.name[:6], w)
			s.Go(name, func() {
				for _, m := range msgs {
					s.Gate(name)
					if err := d.from.WriteMessage(m); err != nil {
						s.Violate("write", "WriteMessage fails on an open connection ("+kind+")", "%s: %v", name, err)
						return
					}
				}
			})
		}
		expect := 0
		for _, l := range d.sent {
			expect += len(l)
		}
		if expect == 0 {
			continue
		}
		s.Go("read:"+d.name[:6], func() {
			for k := 0; k < expect; k++ {
				m, err := d.to.ReadMessage()
				if err != nil {
					mu.Lock()
					d.readErr = err
					mu.Unlock()
					return
				}
				mu.Lock()
				d.got = append(d.got, canon(m))
				d.gotW = append(d.gotW, writerOf(m))
				mu.Unlock()
			}
		})
	}
	res := s.Drive(kernel.DriveOpts{IdleCap: time.Second})
	for _, d := range dirs {
		if s.Violated() {
			break
		}
		expect := 0
		for _, l := range d.sent {
			expect += len(l)
		}
		if d.readErr != nil {
			s.Violate("intact", "reader fails on a well-formed stream ("+kind+")", "%s: after %d of %d messages: %v", d.name, len(d.got), expect, d.readErr)
			break
		}
		if len(d.got) != expect && res == kernel.Budget {
			s.Probe("c17.step_budget_exhausted")
			break
		}
		if len(d.got) != expect {
			s.Violate("exactly_once", "messages lost when the stream is chunked ("+kind+")", "%s: %d messages written, %d read (drive %s); chunk sizes %v", d.name, expect, len(d.got), res, sizes)
			break
		}
		next := make([]int, d.writers)
		for k, g := range d.got {
			w := d.gotW[k]
			if w < 0 || w >= d.writers || next[w] >= len(d.sent[w]) {
				s.Violate("intact", "a message that was never written is read ("+kind+")", "%s: message %d: %s", d.name, k, shortMsg(g))
				break
			}
			if want := d.sent[w][next[w]]; g != want {
				key := "message altered in transit"
				for _, later := range d.sent[w][next[w]:] {
					if later == g {
						key = "messages of one writer arrive out of order"
					}
				}
				s.Violate("intact", key+" ("+kind+")", "%s: writer %d message %d: read %s, written %s", d.name, w, next[w], shortMsg(g), shortMsg(want))
				break
			}
			next[w]++
		}
	}
	s.ProbeN("c17.messages", total)
	for _, c := range closers {
		c()
	}
	a.Close()
	b.Close()
}

// EchoSvc is the service behind the HTTP codec scenario.
type EchoSvc struct{}

// Echo answers with the token, the length of the blob and the first back bytes of it (replies come in all sizes too).
func (EchoSvc) Echo(ctx context.Context, token string, blob string, back int) (string, error) {
	if back > len(blob) {
		back = len(blob)
	}
	return "echo:" + token + ":" + fmt.Sprint(len(blob)) + ":" + blob[:back], nil
}

func runC17HTTP(s *kernel.Sim) {
	sizes := [][]int{seams.DefaultChunkSizes, {1, 2, 3, 50}, {0}, {0, 0, 7, 4096}}[s.Choose("chunking", 4)]
	l := seams.NewListener(s, "192.0.2.1:80")
	l.Sizes = sizes
	hs := &jsonrpc2.HTTPServer{}
	if err := hs.Server.Register("e_", &EchoSvc{}); err != nil {
		panic(err)
	}
	srv := &http.Server{Handler: hs}
	s.GoBG("httpserver", func() { srv.Serve(l) })
	tr := &http.Transport{DialContext: func(ctx context.Context, network, addr string) (net.Conn, error) { return l.Dial("") }, DisableKeepAlives: s.Choose("keepalive", 2) == 0, MaxIdleConnsPerHost: 4}
	svc := &jsonrpc2.HTTPService{Endpoint: "http://pool.sim/", HTTPClient: http.Client{Transport: tr}}
	if s.Choose("maxlen", 2) == 1 {
		svc.MaxContentLength = 1 << 20 // a limit far above every message of the run
	}
	s.SetYield("op", 3)
	callers := 1 + s.Choose("callers", 3)
	total := 0
	for c := 0; c < callers; c++ {
		c := c
		n := 1 + s.Choose("ncalls", 6)
		total += n
		type call struct {
			token, blob string
			back        int
		}
		calls := make([]call, n)
		for i := range calls {
			calls[i] = call{fmt.Sprintf("c%d-%d ✓", c, i), strings.Repeat("z", []int{0, 3, 700, 70000}[s.Choose("blob", 4)]), []int{0, 2, 3000, 70000}[s.Choose("back", 4)]}
		}
		name := fmt.Sprintf("caller%d", c)
		s.Go(name, func() {
			for _, cl := range calls {
				s.Gate(name)
				ctx, cancel := context.WithCancel(s.Ctx)
				var got string
				err := svc.Call(ctx, &got, "e_echo", cl.token, cl.blob, cl.back)
				cancel()
				want := "echo:" + cl.token + ":" + fmt.Sprint(len(cl.blob)) + ":" + cl.blob[:min(cl.back, len(cl.blob))]
				if err != nil {
					s.Violate("intact", "HTTP call fails however the bytes are chunked", "%s token %q: %v (chunk sizes %v)", name, cl.token, err, sizes)
					return
				}
				if got != want {
					s.Violate("intact", "HTTP call returns another call's or an altered reply", "%s: got %.80q (%d bytes) want %.80q (%d bytes)", name, got, len(got), want, len(want))
					return
				}
				if len(got) > 2048 {
					s.Probe("c17.http_reply_larger_than_the_server_buffer")
				}
			}
		})
	}
	res := s.Drive(kernel.DriveOpts{IdleCap: 2 * time.Second})
	if res != kernel.Done && res != kernel.Stopped {
		s.Violate("exactly_once", "HTTP call never returns", "drive %s", res)
	}
	s.ProbeN("c17.http_calls", total)
	tr.CloseIdleConnections()
	srv.Close()
	_ = bytes.MinRead
}
