package scen

import (
	"fmt"
	"math/big"
	"sort"
	"strings"
	"time"

	"github.com/vipnode/vipnode/v2/pool/store"
	"verif/sim/kernel"
	"verif/sim/models"
	"verif/sim/seams"
)

func init() {
	Register(&Scenario{
		Name: "c12_store_diff", Property: "C12", MaxSteps: 10, Quick: 700, Thorough: 40000,
		Doc:  "20-80 store operations over small id/account alphabets applied at the same simulated instants to the memory driver, the badger driver (real on-disk database) and the reference model of the documented contract; the fake clock crosses the expiry and nonce windows",
		Real: []string{"pool/store/memory", "pool/store/badger", "badger v2.0.3 (on-disk, /dev/shm)"},
		Stub: []string{"none (the schedule dimension is inert here: operations are sequential; the clock is simulated)"},
		Run:  runC12,
	})
}

var (
	big70, _ = new(big.Int).SetString("1180591620717411303424", 10) // 2^70
)

type storeDiff struct {
	s      *kernel.Sim
	mem    store.Store
	bad    store.Store
	ref    *models.RefStore
	prefix string
	i      int
	desc   string
	hook   func(i int, desc string)

	lastNonce map[string]int64
	accepted  map[string][]int64
}

func newStoreDiff(s *kernel.Sim, mem, bad store.Store) *storeDiff {
	return &storeDiff{s: s, mem: mem, bad: bad, ref: models.NewRefStore(time.Now), lastNonce: map[string]int64{}, accepted: map[string][]int64{}}
}

// bad1 reports a deviation of one driver from the contract.
func (d *storeDiff) bad1(op, aspect string, ds namedStore, ok bool, format string, a ...interface{}) {
	if ok {
		return
	}
	d.s.Violate("contract", op+": "+aspect+" ("+ds.name+")", d.prefix+ds.name+": "+format, a...)
}

func errName(err error) string {
	switch err {
	case nil:
		return "nil"
	case store.ErrInvalidNonce, store.ErrUnregisteredNode, store.ErrMalformedNode, store.ErrNotAuthorized:
		return err.Error()
	}
	return "other(" + err.Error() + ")"
}

// who names the deviating driver(s).
func who(memOK, badOK bool) string {
	switch {
	case !memOK && !badOK:
		return "both drivers"
	case !memOK:
		return "memory driver"
	default:
		return "badger driver"
	}
}

func (d *storeDiff) bad3(op, aspect string, memOK, badOK bool, format string, a ...interface{}) {
	if memOK && badOK {
		return
	}
	d.s.Violate("contract", op+": "+aspect+" ("+who(memOK, badOK)+")", d.prefix+format, a...)
}

func idsOfNodes(ns []store.Node) []string {
	r := make([]string, 0, len(ns))
	for _, n := range ns {
		r = append(r, string(n.ID))
	}
	sort.Strings(r)
	return r
}

func idsOf(ns []store.NodeID) []string {
	r := make([]string, 0, len(ns))
	for _, n := range ns {
		r = append(r, string(n))
	}
	sort.Strings(r)
	return r
}

func sameStrs(a, b []string) bool {
	if len(a) != len(b) {
		return false
	}
	for i := range a {
		if a[i] != b[i] {
			return false
		}
	}
	return true
}

func nodeEq(a *store.Node, b store.Node) bool {
	return a.ID == b.ID && a.URI == b.URI && a.LastSeen.Equal(b.LastSeen) && a.Kind == b.Kind && a.IsHost == b.IsHost &&
		a.Payout == b.Payout && a.BlockNumber == b.BlockNumber && a.NodeVersion == b.NodeVersion && a.VipnodeVersion == b.VipnodeVersion
}

func balEq(b store.Balance, m models.Balance) bool {
	return b.Account == m.Account && b.Credit.Cmp(m.Credit) == 0 && b.Deposit.Sign() == 0
}

func balStr(b store.Balance) string {
	return fmt.Sprintf("{account=%q credit=%s deposit=%s}", b.Account, b.Credit.String(), b.Deposit.String())
}

func runC12(s *kernel.Sim) {
	dir := seams.ScratchDir(s, "c12")
	tableMB := []int{1, 2, 8}[s.Choose("tableMB", 3)]
	bad, err := seams.OpenStore(s, "badger", dir, tableMB)
	if err != nil {
		panic("open badger: " + err.Error())
	}
	defer seams.CloseStore(s, bad)
	mem, _ := seams.OpenStore(s, "memory", "", 0)
	d := newStoreDiff(s, mem, bad)
	runStoreOps(d, 20+s.Choose("nops", 61), nil)
}

// storeAlphabet is the small universe operations draw their arguments from.
var (
	nodeIDs  = []string{"na", "nb", "nc", "nd", ""}
	accounts = []string{"wa", "wb", ""}
	kinds    = []string{"", "geth", "parity"}
	gaps     = []time.Duration{time.Second, 59 * time.Second, 60 * time.Second, 120*time.Second - 1, 120 * time.Second, 120*time.Second + 1,
		10 * time.Minute, 15*time.Minute - time.Second, 15 * time.Minute, 15*time.Minute + time.Second + 1, 500 * time.Millisecond, 61 * time.Second}
)

func amount(s *kernel.Sim) *big.Int {
	switch s.Choose("amt", 8) {
	case 0:
		return big.NewInt(int64(1 + s.Choose("amt.small", 100)))
	case 1:
		return big.NewInt(-int64(1 + s.Choose("amt.small", 100)))
	case 2:
		return new(big.Int)
	case 3:
		return new(big.Int).Set(big70)
	case 4:
		return new(big.Int).Neg(big70)
	case 5:
		return new(big.Int).Add(big70, big.NewInt(int64(s.Choose("amt.small", 1000))))
	case 6:
		return big.NewInt(1000000007)
	default:
		return big.NewInt(int64(s.Choose("amt.small", 5)))
	}
}

// runStoreOps applies nops generated operations to the drivers and the
// model and compares every result.  hook (optional) is called before each
// operation with its index and description (C13 uses it for restarts).
func runStoreOps(d *storeDiff, nops int, hook func(i int, desc string)) {
	s := d.s
	d.hook = hook
	for i := 0; i < nops && !s.Violated(); i++ {
		d.i = i
		op := s.Choose("op", 20)
		switch op {
		case 0, 1:
			id := nodeIDs[s.Choose("node", len(nodeIDs))]
			n := store.Node{ID: store.NodeID(id), Kind: kinds[s.Choose("kind", 3)], IsHost: s.Choose("host", 2) == 1,
				BlockNumber: uint64(s.Choose("block", 50)), URI: "enode://" + id + "@h:1", NodeVersion: "v" + fmt.Sprint(i)}
			switch s.Choose("seen", 4) {
			case 0:
				n.LastSeen = time.Now()
			case 1:
				n.LastSeen = time.Now().Add(-gaps[s.Choose("gap", len(gaps))])
			case 2:
				// zero time: never seen
			default:
				n.LastSeen = time.Now().Add(-time.Second)
			}
			if s.Choose("payout", 3) == 0 {
				n.Payout = store.Account(accounts[s.Choose("acct", len(accounts))])
			}
			d.doSetNode(n)
		case 2:
			d.doGetNode(store.NodeID(nodeIDs[s.Choose("node", len(nodeIDs))]))
		case 3, 4, 5:
			id := store.NodeID(nodeIDs[s.Choose("node", len(nodeIDs))])
			var peers []string
			for k := s.Choose("npeers", 5); k > 0; k-- {
				switch s.Choose("peer", 8) {
				case 0:
					peers = append(peers, "zz-unknown")
				case 1:
					peers = append(peers, string(id)) // itself
				default:
					peers = append(peers, nodeIDs[s.Choose("node", len(nodeIDs))])
				}
			}
			d.doUpdate(id, peers, uint64(s.Choose("block", 50)))
		case 6, 7:
			d.doNodePeers(store.NodeID(nodeIDs[s.Choose("node", len(nodeIDs))]))
		case 8, 9:
			kind := kinds[s.Choose("kind", 3)]
			in, _ := d.ref.Eligible(kind)
			d.doActiveHosts(kind, s.Choose("limit", len(in)+3))
		case 10:
			d.doGetNodeBalance(store.NodeID(nodeIDs[s.Choose("node", len(nodeIDs))]))
		case 11, 12:
			d.doAddNodeBalance(store.NodeID(nodeIDs[s.Choose("node", len(nodeIDs))]), amount(s))
		case 13:
			d.doGetAccountBalance(store.Account(accounts[s.Choose("acct", len(accounts))]))
		case 14:
			d.doAddAccountBalance(store.Account(accounts[s.Choose("acct", len(accounts))]), amount(s))
		case 15, 16:
			d.doAddAccountNode(store.Account(accounts[s.Choose("acct", len(accounts))]), store.NodeID(nodeIDs[s.Choose("node", len(nodeIDs))]))
		case 17:
			d.doIsAccountNode(store.Account(accounts[s.Choose("acct", len(accounts))]), store.NodeID(nodeIDs[s.Choose("node", len(nodeIDs))]))
		case 18:
			d.begin("Stats()")
			d.compareStats()
			d.end()
		case 19:
			if s.Choose("nonceOrTime", 3) == 0 {
				d.doAdvance(gaps[s.Choose("gap", len(gaps))])
				break
			}
			id := nodeIDs[s.Choose("node", 3)]
			d.doNonce(id, d.genNonce(id))
		}
		s.SigMix(fmt.Sprint(op))
	}
	if !s.Violated() {
		d.prefix = "final state: "
		d.compareAll()
	}
	s.ProbeN("store.ops", nops)
}

// genNonce draws a nonce relative to now and to the identity's last accepted one.
func (d *storeDiff) genNonce(id string) int64 {
	s := d.s
	now := time.Now().UnixNano()
	switch s.Choose("nonce", 9) {
	case 0:
		return now
	case 1:
		return d.lastNonce[id]
	case 2:
		return d.lastNonce[id] - 1
	case 3:
		return d.lastNonce[id] + 1
	case 4:
		return now - int64(15*time.Minute) + int64(s.Choose("eps", 3)) - 1
	case 5:
		return now + int64(gaps[s.Choose("gap", len(gaps))]) // a client whose clock runs ahead
	case 6:
		return now - int64(gaps[s.Choose("gap", len(gaps))])
	case 7:
		// replay of any nonce ever accepted for this identity
		if l := d.accepted[id]; len(l) > 0 {
			return l[s.Choose("replay", len(l))]
		}
		return now
	default:
		return now + int64(s.Choose("eps", 1000))
	}
}

func (d *storeDiff) doSetNode(n store.Node) {
	d.begin(fmt.Sprintf("SetNode(%q kind=%q host=%v seen=%s)", n.ID, n.Kind, n.IsHost, since(n.LastSeen)))
	er := d.ref.SetNode(n)
	var em, eb error = er, er
	if d.mem != nil {
		em = d.mem.SetNode(n)
	}
	if d.bad != nil {
		eb = d.bad.SetNode(n)
	}
	d.bad3("SetNode", "error identity", em == er, eb == er, "got memory=%s badger=%s, contract=%s", errName(em), errName(eb), errName(er))
	d.end()
}

func (d *storeDiff) doGetNode(id store.NodeID) {
	d.begin(fmt.Sprintf("GetNode(%q)", id))
	nr, er := d.ref.GetNode(id)
	for _, ds := range d.drivers() {
		n, e := ds.st.GetNode(id)
		d.bad1("GetNode", "error identity", ds, e == er, "got %s, contract=%s", errName(e), errName(er))
		if e == nil && er == nil {
			d.bad1("GetNode", "node record", ds, nodeEq(n, *nr), "got %+v contract=%+v", *n, *nr)
		}
	}
	d.end()
}

func (d *storeDiff) doUpdate(id store.NodeID, peers []string, block uint64) (evicted []string) {
	d.begin(fmt.Sprintf("UpdateNodePeers(%q, %q, %d)", id, peers, block))
	ir, bnd, er := d.ref.UpdateNodePeers(id, peers, block)
	self := false
	for _, p := range peers {
		if p == string(id) {
			self = true
		}
	}
	aspect := "evicted set"
	if self {
		aspect = "evicted set when a node reports itself"
	}
	var first []string
	for k, ds := range d.drivers() {
		iv, e := ds.st.UpdateNodePeers(id, peers, block)
		d.bad1("UpdateNodePeers", "error identity", ds, e == er, "got %s, contract=%s", errName(e), errName(er))
		if e != nil || er != nil {
			continue
		}
		got := idsOf(iv)
		d.bad1("UpdateNodePeers", aspect, ds, evictOK(got, idsOf(ir), idsOf(bnd)), "evicted %q, contract evicts %q (boundary don't-care %q)", got, idsOf(ir), idsOf(bnd))
		if k == 0 {
			first = got
			for _, p := range bnd {
				ev := false
				for _, q := range iv {
					if q == p {
						ev = true
					}
				}
				d.ref.ResolveBoundary(id, p, ev)
			}
		} else if !sameStrs(first, got) && !d.s.Violated() {
			d.s.Violate("contract", "UpdateNodePeers: drivers disagree at the expiry boundary", d.prefix+"memory evicted %q, badger %q", first, got)
		}
		evicted = got
	}
	d.end()
	return
}

func (d *storeDiff) doNodePeers(id store.NodeID) {
	d.begin(fmt.Sprintf("NodePeers(%q)", id))
	pr, er := d.ref.NodePeers(id)
	for _, ds := range d.drivers() {
		ps, e := ds.st.NodePeers(id)
		d.bad1("NodePeers", "error identity", ds, e == er, "got %s, contract=%s", errName(e), errName(er))
		if e == nil && er == nil {
			d.bad1("NodePeers", "tracked peer set", ds, sameStrs(idsOfNodes(ps), idsOf(pr)), "got %q contract=%q", idsOfNodes(ps), idsOf(pr))
			for _, n := range ps {
				if rn, e := d.ref.GetNode(n.ID); e == nil && !nodeEq(&n, *rn) {
					d.bad1("NodePeers", "stale peer record", ds, false, "peer %q returned as %+v, current record %+v", n.ID, n, *rn)
				}
			}
		}
	}
	d.end()
}

func (d *storeDiff) doActiveHosts(kind string, limit int) {
	in, bnd := d.ref.Eligible(kind)
	d.begin(fmt.Sprintf("ActiveHosts(%q, %d)", kind, limit))
	for _, ds := range d.drivers() {
		h, e := ds.st.ActiveHosts(kind, limit)
		d.bad1("ActiveHosts", "error identity", ds, e == nil, "got %s, contract=nil", errName(e))
		if e == nil {
			ok, why := hostsOK(h, in, bnd, limit, d.ref)
			d.bad1("ActiveHosts", firstNonEmpty(why, ""), ds, ok, "got %q eligible=%q boundary=%q limit=%d", idsOfNodes(h), idsOf(in), idsOf(bnd), limit)
		}
	}
	d.end()
}

func (d *storeDiff) doGetNodeBalance(id store.NodeID) {
	d.begin(fmt.Sprintf("GetNodeBalance(%q)", id))
	br, er := d.ref.GetNodeBalance(id)
	for _, ds := range d.drivers() {
		b, e := ds.st.GetNodeBalance(id)
		d.bad1("GetNodeBalance", "error identity", ds, e == er, "got %s, contract=%s", errName(e), errName(er))
		if e == nil && er == nil {
			d.bad1("GetNodeBalance", "balance", ds, balEq(b, br), "got %s contract={account=%q credit=%s}", balStr(b), br.Account, br.Credit)
		}
	}
	d.end()
}

func (d *storeDiff) doAddNodeBalance(id store.NodeID, amt *big.Int) {
	d.begin(fmt.Sprintf("AddNodeBalance(%q, %s)", id, amt))
	er := d.ref.AddNodeBalance(id, amt)
	for _, ds := range d.drivers() {
		e := ds.st.AddNodeBalance(id, new(big.Int).Set(amt))
		d.bad1("AddNodeBalance", "error identity", ds, e == er, "got %s, contract=%s", errName(e), errName(er))
	}
	d.end()
}

func (d *storeDiff) doGetAccountBalance(acc store.Account) {
	d.begin(fmt.Sprintf("GetAccountBalance(%q)", acc))
	br := d.ref.GetAccountBalance(acc)
	for _, ds := range d.drivers() {
		b, e := ds.st.GetAccountBalance(acc)
		d.bad1("GetAccountBalance", "error identity", ds, e == nil, "got %s, contract=nil", errName(e))
		if e == nil {
			aspect := "balance"
			if b.Credit.Cmp(br.Credit) == 0 {
				aspect = "account field of the balance"
			}
			d.bad1("GetAccountBalance", aspect, ds, balEq(b, br), "got %s contract={account=%q credit=%s}", balStr(b), br.Account, br.Credit)
		}
	}
	d.end()
}

func (d *storeDiff) doAddAccountBalance(acc store.Account, amt *big.Int) {
	d.begin(fmt.Sprintf("AddAccountBalance(%q, %s)", acc, amt))
	d.ref.AddAccountBalance(acc, amt)
	for _, ds := range d.drivers() {
		e := ds.st.AddAccountBalance(acc, new(big.Int).Set(amt))
		d.bad1("AddAccountBalance", "error identity", ds, e == nil, "got %s, contract=nil", errName(e))
	}
	d.end()
}

func (d *storeDiff) doAddAccountNode(acc store.Account, id store.NodeID) {
	d.begin(fmt.Sprintf("AddAccountNode(%q, %q)", acc, id))
	er := d.ref.AddAccountNode(acc, id)
	for _, ds := range d.drivers() {
		e := ds.st.AddAccountNode(acc, id)
		d.bad1("AddAccountNode", "error identity", ds, e == er, "got %s, contract=%s", errName(e), errName(er))
	}
	d.end()
}

func (d *storeDiff) doIsAccountNode(acc store.Account, id store.NodeID) {
	d.begin(fmt.Sprintf("IsAccountNode(%q, %q) + GetAccountNodes", acc, id))
	er := d.ref.IsAccountNode(acc, id)
	lr := d.ref.GetAccountNodes(acc)
	for _, ds := range d.drivers() {
		e := ds.st.IsAccountNode(acc, id)
		d.bad1("IsAccountNode", "error identity", ds, e == er, "got %s, contract=%s", errName(e), errName(er))
		l, e2 := ds.st.GetAccountNodes(acc)
		d.bad1("GetAccountNodes", "error identity", ds, e2 == nil, "got %s", errName(e2))
		if e2 == nil {
			d.bad1("GetAccountNodes", "spender set", ds, sameStrs(idsOf(l), idsOf(lr)), "got %q contract=%q", idsOf(l), idsOf(lr))
		}
	}
	d.end()
}

func (d *storeDiff) doAdvance(g time.Duration) {
	d.begin(fmt.Sprintf("advance clock %s", g))
	time.Sleep(g)
	d.s.Probe("store.clock_advances")
	d.s.MarkNontrivial()
	d.s.SigMix(g.String())
	d.end()
}

// doNonce submits one nonce to every driver and the model; it reports whether the contract accepts it.
func (d *storeDiff) doNonce(id string, nonce int64) bool {
	now := time.Now().UnixNano()
	d.begin(fmt.Sprintf("CheckAndSaveNonce(%q, now%+dns)", id, nonce-now))
	er := d.ref.CheckAndSaveNonce(id, nonce)
	if er == nil {
		d.lastNonce[id] = nonce
		d.accepted[id] = append(d.accepted[id], nonce)
	}
	for _, ds := range d.drivers() {
		e := ds.st.CheckAndSaveNonce(id, nonce)
		aspect := "accept/reject decision"
		if e == nil && er != nil {
			aspect = "accepts a nonce the contract refuses"
			for _, a := range d.accepted[id] {
				if a == nonce {
					aspect = "accepts the same nonce twice"
				}
			}
		} else if e != nil && er == nil {
			aspect = "refuses a fresh, higher nonce"
		}
		d.bad1("CheckAndSaveNonce", aspect, ds, e == er, "nonce=now%+dns: got %s, contract=%s", nonce-now, errName(e), errName(er))
	}
	d.end()
	return er == nil
}

func since(t time.Time) string {
	if t.IsZero() {
		return "never"
	}
	return "now-" + time.Since(t).String()
}

func firstNonEmpty(a, b string) string {
	if a != "" {
		return a
	}
	if b != "" {
		return b
	}
	return "result"
}

func (d *storeDiff) begin(desc string) {
	d.desc = desc
	d.prefix = fmt.Sprintf("op %d %s: ", d.i, desc)
	if d.hook != nil {
		d.hook(d.i, desc)
	}
}

func (d *storeDiff) end() {
	d.s.Event("op %d %s", d.i, d.desc)
	d.s.CountStep()
}

// evictOK: got must contain every must-evict id, and nothing outside must ∪ boundary.
func evictOK(got, must, boundary []string) bool {
	g := map[string]bool{}
	for _, x := range got {
		if g[x] {
			return false
		}
		g[x] = true
	}
	for _, m := range must {
		if !g[m] {
			return false
		}
		delete(g, m)
	}
	for _, b := range boundary {
		delete(g, b)
	}
	return len(g) == 0
}

func hostsOK(got []store.Node, in, bnd []store.NodeID, limit int, ref *models.RefStore) (bool, string) {
	allowed := map[store.NodeID]bool{}
	for _, x := range in {
		allowed[x] = true
	}
	nb := 0
	seen := map[store.NodeID]bool{}
	for _, x := range bnd {
		allowed[x] = true
	}
	for _, n := range got {
		if !allowed[n.ID] {
			return false, "returns an ineligible host"
		}
		if seen[n.ID] {
			return false, "returns a host twice"
		}
		seen[n.ID] = true
		for _, b := range bnd {
			if b == n.ID {
				nb++
			}
		}
		if rn, err := ref.GetNode(n.ID); err == nil && !nodeEq(&n, *rn) {
			return false, "returns a stale host record"
		}
	}
	lo, hi := len(in), len(in)+len(bnd)
	if limit > 0 {
		if lo > limit {
			lo = limit
		}
		if hi > limit {
			hi = limit
		}
	}
	if len(got) < lo || len(got) > hi {
		return false, "result size vs limit and supply"
	}
	return true, ""
}

func (d *storeDiff) compareStats() {
	r := d.ref.Stats()
	for _, ds := range d.drivers() {
		st, e := ds.st.Stats()
		d.bad1("Stats", "error identity", ds, e == nil, "got %s", errName(e))
		if e != nil {
			continue
		}
		type f struct {
			name        string
			got         int64
			want, slack int64
		}
		fs := []f{
			{"NumTotalHosts", int64(st.NumTotalHosts), int64(r.TotalHosts), 0},
			{"NumTotalClients", int64(st.NumTotalClients), int64(r.TotalClients), 0},
			{"NumActiveHosts", int64(st.NumActiveHosts), int64(r.ActiveHosts), int64(r.BoundaryNodes)},
			{"NumActiveClients", int64(st.NumActiveClients), int64(r.ActiveClients), int64(r.BoundaryNodes)},
			{"LatestBlockNumber", int64(st.LatestBlockNumber), int64(r.LatestBlock), 0},
			{"NumTrialBalances", int64(st.NumTrialBalances), int64(r.TrialBalances), 0},
		}
		for _, x := range fs {
			d.bad1("Stats", x.name, ds, x.got >= x.want && x.got <= x.want+x.slack, "got %d, true value %d", x.got, x.want)
		}
		d.bad1("Stats", "TotalCredit", ds, st.TotalCredit.Cmp(r.TotalCredit) == 0, "got %s, true sum %s", st.TotalCredit.String(), r.TotalCredit)
		d.bad1("Stats", "TotalDeposit", ds, st.TotalDeposit.Sign() == 0, "got %s", st.TotalDeposit.String())
	}
}

type namedStore struct {
	name string
	st   store.Store
}

func (d *storeDiff) drivers() []namedStore {
	var r []namedStore
	if d.mem != nil {
		r = append(r, namedStore{"memory driver", d.mem})
	}
	if d.bad != nil {
		r = append(r, namedStore{"badger driver", d.bad})
	}
	return r
}

// compareAll reads the whole observable state of every driver and compares it with the model.
func (d *storeDiff) compareAll() {
	for _, ds := range d.drivers() {
		if diff := storeVsModel(ds.st, d.ref); diff != "" {
			aspect := diff
			if i := strings.Index(diff, ":"); i > 0 {
				aspect = diff[:i]
			}
			d.s.Violate("contract", "final state: "+aspect+" ("+ds.name+")", "%s%s: %s", d.prefix, ds.name, diff)
		}
	}
	d.compareStats()
}

// storeVsModel compares the whole observable state of a driver with a model
// state; it returns "" when they agree, else "<aspect>: detail".
func storeVsModel(st store.Store, ref *models.RefStore) string {
	for _, id := range nodeIDs {
		nid := store.NodeID(id)
		nr, er := ref.GetNode(nid)
		n, e := st.GetNode(nid)
		if e != er || (e == nil && !nodeEq(n, *nr)) {
			return fmt.Sprintf("node record: node %q: got %+v err=%s, model %+v err=%s", id, n, errName(e), nr, errName(er))
		}
		ps, e2 := st.NodePeers(nid)
		pr, er2 := ref.NodePeers(nid)
		if e2 != er2 || !sameStrs(idsOfNodes(ps), idsOf(pr)) {
			return fmt.Sprintf("tracked peers: node %q: tracked %q err=%s, model %q err=%s", id, idsOfNodes(ps), errName(e2), idsOf(pr), errName(er2))
		}
		b, e3 := st.GetNodeBalance(nid)
		br, er3 := ref.GetNodeBalance(nid)
		if e3 != er3 || (e3 == nil && !balEq(b, br)) {
			return fmt.Sprintf("node balance: node %q: balance %s err=%s, model {account=%q credit=%s} err=%s", id, balStr(b), errName(e3), br.Account, br.Credit, errName(er3))
		}
		for _, a := range accounts {
			if e4, er4 := st.IsAccountNode(store.Account(a), nid), ref.IsAccountNode(store.Account(a), nid); e4 != er4 {
				return fmt.Sprintf("wallet link: IsAccountNode(%q,%q)=%s, model %s", a, id, errName(e4), errName(er4))
			}
		}
	}
	for _, a := range accounts {
		b, e := st.GetAccountBalance(store.Account(a))
		br := ref.GetAccountBalance(store.Account(a))
		if e != nil || b.Credit.Cmp(br.Credit) != 0 {
			return fmt.Sprintf("account balance: account %q: %s err=%s, model credit=%s", a, balStr(b), errName(e), br.Credit)
		}
		l, e2 := st.GetAccountNodes(store.Account(a))
		if e2 != nil || !sameStrs(idsOf(l), idsOf(ref.GetAccountNodes(store.Account(a)))) {
			return fmt.Sprintf("spender set: account %q: %q err=%s, model %q", a, idsOf(l), errName(e2), idsOf(ref.GetAccountNodes(store.Account(a))))
		}
	}
	stt, e := st.Stats()
	if e != nil {
		return "stats: " + e.Error()
	}
	r := ref.Stats()
	if stt.TotalCredit.Cmp(r.TotalCredit) != 0 {
		return fmt.Sprintf("total credit: Stats().TotalCredit=%s, model %s", stt.TotalCredit.String(), r.TotalCredit)
	}
	if stt.NumTrialBalances != r.TrialBalances {
		return fmt.Sprintf("trial balances: Stats().NumTrialBalances=%d, model %d", stt.NumTrialBalances, r.TrialBalances)
	}
	if stt.NumTotalHosts != r.TotalHosts || stt.NumTotalClients != r.TotalClients {
		return fmt.Sprintf("node counts: hosts=%d clients=%d, model %d/%d", stt.NumTotalHosts, stt.NumTotalClients, r.TotalHosts, r.TotalClients)
	}
	return ""
}
