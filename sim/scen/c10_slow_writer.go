package scen

import (
	"fmt"
	"math/big"
	"time"

	"github.com/vipnode/vipnode/v2/pool/store"
	"verif/sim/kernel"
	"verif/sim/seams"
)

func init() {
	Register(&Scenario{
		Name: "c10_slow_writer", Property: "C10", MaxSteps: 20000, Quick: 60, Thorough: 3000,
		Doc:  "persistent driver: one write to a hot record (a popular host's balance, a shared wallet, an identity's nonce) is slower than the writes it competes with - every time it is about to commit, another writer has committed the record it read (generated plan: which record, which operations, how many times in a row this happens: 1 to 300); oracle: the slow write is applied and acknowledged like every other one (no conflict error of the database reaches the caller, the final value is the sum of all acknowledged writes)",
		Real: []string{"pool/store/badger (real badger v1.6 database on a scratch directory, real optimistic transactions and conflicts)"},
		Stub: []string{"callers of the store (the scenario calls the driver directly)"},
		Run:  runC10SlowWriter,
	})
}

func runC10SlowWriter(s *kernel.Sim) {
	dir := seams.ScratchDir(s, "c10sw")
	st, err := seams.OpenStore(s, "badger", dir, 1)
	if err != nil {
		panic(err)
	}
	defer seams.CloseStore(s, st)
	id := store.NodeID(nodeIDs[0])
	acct := store.Account(accounts[0])
	if err := st.SetNode(store.Node{ID: id, IsHost: true, URI: "enode://" + string(id) + "@1.2.3.4:30303", LastSeen: time.Now()}); err != nil {
		panic(err)
	}
	record := []string{"trial balance of a host", "balance of a wallet", "balance of a wallet, written through one of its nodes"}[s.Choose("record", 3)]
	if record != "trial balance of a host" {
		if err := st.AddAccountNode(acct, id); err != nil {
			panic(err)
		}
	}
	write := func(amount int64) error {
		switch record {
		case "balance of a wallet":
			return st.AddAccountBalance(acct, big.NewInt(amount))
		default:
			return st.AddNodeBalance(id, big.NewInt(amount))
		}
	}
	rounds := []int{1, 2, 5, 20, 40, 63, 64, 65, 80, 120, 200, 300}[s.Choose("rounds", 12)]
	seams.InstallTxnHook(s)
	s.SetYield("txn", 1)
	var errSlow error
	slowDone := false
	slow := s.Go("slow", func() {
		errSlow = write(1000000)
		slowDone = true
	})
	committed, busyErrs := 0, 0
	var firstBusyErr error
	busy := s.Go("busy", func() {
		for i := 0; i < rounds+1; i++ {
			if err := write(1); err != nil {
				busyErrs++
				if firstBusyErr == nil {
					firstBusyErr = err
				}
			} else {
				committed++
			}
		}
	})
	lost := 0
	for r := 0; r < rounds && !slowDone; r++ {
		s.Settle()
		if !s.IsParked("slow") {
			break
		}
		// the slow writer has read the record; the busy one commits once more
		before := committed + busyErrs
		for committed+busyErrs == before && !busy.Done() {
			if !s.ReleaseTask("busy") {
				break
			}
			s.Settle()
		}
		// ... and now the slow one gets to commit: conflict, its transaction runs again
		s.ReleaseTask("slow")
		s.Settle()
		lost++
	}
	s.ProbeN("c10.commit_attempts_lost_to_a_faster_writer", lost)
	if lost >= 64 {
		s.Probe("c10.write_lost_64_or_more_commit_attempts_in_a_row")
	}
	// the competition ends: everybody runs to completion
	for i := 0; i < 4*(rounds+4) && !(slow.Done() && busy.Done()); i++ {
		s.Settle()
		if !s.ReleaseFirst() {
			break
		}
	}
	s.Settle()
	s.SetYield("txn", 0)
	if !slow.Done() || !busy.Done() {
		s.Violate("liveness", "writers never finish", "slow done=%v busy done=%v", slow.Done(), busy.Done())
		return
	}
	if errSlow != nil {
		s.Violate("no_lost_update", "a write that kept losing to a faster writer is given up", "%s: a write lost %d commit attempts in a row to another writer of the same record and returned %q (one at a time, it cannot fail)", record, lost, errSlow)
	}
	if busyErrs > 0 {
		s.Violate("no_lost_update", "a write is refused because of a concurrent one", "%s: %d of the busy writer's writes failed, first: %v", record, busyErrs, firstBusyErr)
	}
	want := int64(committed)
	if errSlow == nil {
		want += 1000000
	}
	b, err := st.GetNodeBalance(id)
	if err != nil {
		panic(err)
	}
	if b.Credit.Cmp(big.NewInt(want)) != 0 {
		s.Violate("no_lost_update", "final balance is not the sum of the acknowledged writes", "%s: %d acknowledged writes of 1 and slow write (err=%v): credit %s, want %d", record, committed, errSlow, &b.Credit, want)
	}
	s.MarkNontrivial()
	s.SigMix(fmt.Sprintf("%s r%d", record, rounds))
}
