package scen

import (
	"github.com/vipnode/vipnode/v2/request"
	"net"
	"net/url"

	"encoding/base64"
	"encoding/json"
	"fmt"
	"github.com/vipnode/vipnode/v2/ethnode"
	"math/big"
	"strings"
	"time"

	"github.com/vipnode/vipnode/v2/pool"
	"github.com/vipnode/vipnode/v2/pool/store"
	"verif/sim/models"
)

// ---------------------------------------------------------------- peer requests (C08, C09)

type peerExpect struct {
	cap        int
	eligible   map[string]bool // definitely eligible store-wise, candidate (not self, not tracked, live connection)
	maybe      map[string]bool // eligibility depends on the instant inside the operation (don't-care)
	allPerfect bool            // every active host of the kind is eligible and acknowledges
	supply     int
}

// expectPeers evaluates the model before a peer request.
func (d *Director) expectPeers(a *Actor, asked int, kind string, t0 time.Time) peerExpect {
	w := d.W
	e := peerExpect{cap: asked, eligible: map[string]bool{}, maybe: map[string]bool{}, allPerfect: true}
	if w.Cfg.MaxRequestHosts > 0 && e.cap > w.Cfg.MaxRequestHosts {
		e.cap = w.Cfg.MaxRequestHosts
	}
	tracked := map[store.NodeID]bool{}
	if ps, err := w.Ref.NodePeers(store.NodeID(a.ID)); err == nil {
		for _, p := range ps {
			tracked[p] = true
		}
	}
	for id, n := range w.Ref.Nodes {
		if !n.IsHost || (kind != "" && n.Kind != kind) {
			continue
		}
		age := t0.Sub(n.LastSeen)
		if age >= models.ExpireWindow {
			continue // stale at the start: may not be returned (boundary handled by maybe below)
		}
		// active host of the requested kind
		h := w.byID[string(id)]
		c := w.Reg[string(id)]
		ok := string(id) != a.ID && !tracked[id] && c != nil && !c.Closed
		fresh := age < models.ExpireWindow-6*time.Second // still fresh even if the store is queried up to 6 s later
		if ok && fresh {
			e.eligible[string(id)] = true
		} else if ok {
			e.maybe[string(id)] = true
		}
		if !ok || !fresh || h == nil || h.Policy != PolicyAck {
			e.allPerfect = false
		}
		e.supply++
	}
	return e
}

// Peer asks for peers and checks the reply (C08) and which connections were instructed (C09).
func (d *Director) Peer(a *Actor, asked int, kind string, legacyClient bool) ([]store.Node, error) {
	w := d.W
	if d.desync {
		return nil, nil // a step before this one left the model behind (the run is ending)
	}
	d.n++
	if a.Conn == nil || a.Conn.Closed {
		w.Dial(a)
	}
	op := fmt.Sprintf("#%d peer(%s num=%d kind=%q legacy=%v)", d.n, a.Name, asked, kind, legacyClient)
	led := d.ledger()
	before := d.instrCounts()
	closedAtStart := map[*Conn]bool{}
	for _, c := range w.Conns {
		closedAtStart[c] = c.Closed && c.Unreg
	}
	t0 := time.Now()
	eff := asked
	if legacyClient {
		if asked == 0 {
			eff = 3 // documented default of the legacy client request when it names no count (the field is omitted when 0)
		}
	}
	exp := d.expectPeers(a, eff, kind, t0)
	w.mu.Lock()
	nReq := len(a.Conn.reqReads)
	nRep := len(a.Conn.replies)
	w.mu.Unlock()
	ctx, cancel := d.ctx()
	defer cancel()
	var hosts []store.Node
	var err error
	if legacyClient {
		var r *pool.ClientResponse
		r, err = a.rp().Client(ctx, pool.ClientRequest{Kind: kind, NumHosts: asked})
		if r != nil {
			hosts = r.Hosts
		}
		// the legacy call also (re-)registers the client
		if err == nil || !isVerifyFailed(err) {
			n := store.Node{ID: store.NodeID(a.ID), Kind: kind, IsHost: false}
			if kind != "geth" && kind != "parity" {
				n.Kind = ""
			}
			w.Ref.SetNode(n)
			d.resyncSeen(a.ID, t0, time.Now(), op)
		}
	} else {
		var r *pool.PeerResponse
		r, err = a.rp().Peer(ctx, pool.PeerRequest{Num: asked, Kind: kind})
		if r != nil {
			hosts = r.Peers
		}
	}
	t1 := time.Now()
	d.logf("%s -> %d hosts %v err=%v", op, len(hosts), w.names(idsOfNodes(hosts)), err)
	if isLowBalance(err) {
		// legacy client refused for its balance: C03's business, nothing to check here
		return hosts, err
	}

	// when did the pool read this request and write this reply?
	w.mu.Lock()
	var reqSeq, repSeq int64 = 0, 1 << 62
	reqAt := t0
	if len(a.Conn.reqReads) > nReq {
		reqSeq = a.Conn.reqReads[nReq].Seq
		reqAt = a.Conn.reqReads[nReq].At
	}
	repAt := t1
	if len(a.Conn.replies) > nRep {
		repSeq = a.Conn.replies[nRep].Seq
		repAt = a.Conn.replies[nRep].At
	}
	w.mu.Unlock()

	seen := map[string]bool{}
	for _, h := range hosts {
		id := string(h.ID)
		hn := w.N(id)
		if seen[id] {
			d.bad("C08", "eligible", "host returned twice", "%s: %s twice", op, hn)
		}
		seen[id] = true
		m, known := w.Ref.Nodes[h.ID]
		switch {
		case !known || !m.IsHost:
			d.bad("C08", "eligible", "returned node is not a full-node host", "%s: %s", op, hn)
		case kind != "" && m.Kind != kind:
			d.bad("C08", "eligible", "returned host is of another kind", "%s: %s is %q, asked %q", op, hn, m.Kind, kind)
		case id == a.ID:
			d.bad("C08", "eligible", "requester returned to itself", "%s", op)
		case !exp.eligible[id] && !exp.maybe[id]:
			why := "stale (no check-in within the activity window)"
			if c := w.Reg[id]; c == nil || c.Closed {
				why = "not connected"
			}
			if ps, _ := w.Ref.NodePeers(store.NodeID(a.ID)); containsID(ps, h.ID) {
				why = "already a tracked peer of the requester"
			}
			d.bad("C08", "eligible", "returned host is "+why, "%s: %s is %s", op, hn, why)
		}
		// acknowledged before the reply was written, on its registered connection
		c := w.Reg[id]
		acked := c != nil && w.ackedBetween(c, a.ID, reqSeq, repSeq)
		if !acked {
			d.bad("C08", "acknowledged", "returned host had not acknowledged the whitelist instruction before the reply", "%s: %s (policy %s) has no whitelist ack for %s between the request and the reply", op, hn, polOf(w.byID[id]), a.Name)
		}
	}
	limit := exp.cap
	if limit < 0 {
		limit = 0
	}
	if len(hosts) > limit {
		key := "more hosts than asked for"
		switch {
		case asked < 0:
			key = "hosts returned for a negative request"
		case w.Cfg.MaxRequestHosts > 0 && eff > w.Cfg.MaxRequestHosts:
			key = "more hosts than the configured maximum"
		}
		d.bad("C08", "count", key, "%s: %d hosts returned, at most %d allowed (asked %d, max %d)", op, len(hosts), limit, asked, w.Cfg.MaxRequestHosts)
	}
	if err != nil && len(hosts) == 0 && exp.cap > 0 {
		// error only when no host could be provided: was there a usable ack?
		for id := range exp.eligible {
			if c := w.Reg[id]; c != nil && w.ackedBetween(c, a.ID, reqSeq, repSeq) {
				d.bad("C08", "count", "error although a host acknowledged in time", "%s: %v, but %s acknowledged", op, err, w.N(id))
			}
		}
	}
	if err == nil && len(hosts) == 0 && exp.cap > 0 {
		d.bad("C08", "count", "empty reply without an error", "%s", op)
	}
	// ("acknowledges" is a statement about the run, not about the host's policy alone: when the request was in the pool for
	// as long as the pool waits for hosts - simulated time can pass in there, a leftover slow handler of an earlier
	// request sleeping is enough - a willing host may not have been heard in time, and is then rightly left out)
	if exp.allPerfect && exp.cap > 0 && len(exp.maybe) == 0 && t1.Sub(t0) < 5*time.Second {
		want := exp.cap
		if exp.supply < want {
			want = exp.supply
		}
		if len(hosts) != want {
			d.bad("C08", "count", "fewer hosts than requested although every active host is eligible and acknowledges", "%s: %d hosts, expected %d (asked %d, max %d, supply %d) err=%v", op, len(hosts), want, asked, w.Cfg.MaxRequestHosts, exp.supply, err)
		}
	}
	if el := repAt.Sub(reqAt); el > 5*time.Second+100*time.Millisecond {
		d.bad("C08", "liveness", "reply later than the whitelist timeout", "%s: the pool wrote its reply %s of simulated time after it read the request", op, el)
	}
	// C09: connections that were closed (and unregistered) before the request started are never written to;
	// a host whose latest connection is open is instructed on exactly that connection
	for _, c := range w.Conns {
		c.Host.mu.Lock()
		n := len(c.Host.Got) - before[c]
		c.Host.mu.Unlock()
		if n <= 0 {
			continue
		}
		if closedAtStart[c] {
			d.bad("C09", "instructed", "a connection closed before the request started was instructed", "%s: %s received %d instructions", op, c.Name, n)
		} else if w.Reg[c.A.ID] != c {
			d.bad("C09", "instructed", "an older connection of a reconnected host was instructed", "%s: %s received %d instructions, latest connection is %s", op, c.Name, n, connName(w.Reg[c.A.ID]))
		}
	}
	if d.on["C09"] {
		// every eligible acknowledging host either was instructed on its live connection or was not picked;
		// with an unlimited request every eligible host must have been instructed
		if exp.cap >= exp.supply && exp.cap > 0 {
			for id := range exp.eligible {
				c := w.Reg[id]
				c.Host.mu.Lock()
				n := len(c.Host.Got) - before[c]
				c.Host.mu.Unlock()
				if n == 0 {
					d.bad("C09", "instructed", "host with a live registered connection cannot be instructed", "%s: %s (connection %s) received no whitelist call", op, w.N(id), c.Name)
				}
			}
		}
		d.checkRegistry(op)
	}
	d.checkLedger(led, op, new(big.Int), "a peer request")
	return hosts, err
}

func connName(c *Conn) string {
	if c == nil {
		return "<none>"
	}
	return c.Name
}

func polOf(a *Actor) string {
	if a == nil {
		return "?"
	}
	return a.Policy.String()
}

func containsID(l []store.NodeID, x store.NodeID) bool {
	for _, y := range l {
		if x == y {
			return true
		}
	}
	return false
}

// ---------------------------------------------------------------- withdrawals (C07)

// Withdraw calls pool_withdraw for the wallet over via's connection.
func (d *Director) Withdraw(via *Actor, wl *Wallet) error {
	w := d.W
	d.n++
	if via.Conn == nil || via.Conn.Closed {
		w.Dial(via)
	}
	op := fmt.Sprintf("#%d withdraw(%s)", d.n, wl.Name)
	acc := store.Account(wl.Addr)
	led := d.ledger()
	credit := w.Ref.GetAccountBalance(acc).Credit
	stored, _ := w.Inner.GetAccountBalance(acc) // what a successful withdrawal settles, as stored
	storedCredit := new(big.Int).Set(&stored.Credit)
	if w.YS.FailPermille != nil && !d.faultWithdrawOnly {
		// storage errors may have hit any earlier operation of this run: the model's credit is no
		// longer exact (a keep-alive that failed was undone in the store), whether this withdrawal
		// is above the minimum is decided from what is stored
		credit = new(big.Int).Set(storedCredit)
	}
	dep := w.Dep.dep(acc)
	total := new(big.Int).Add(credit, dep)
	w.Set.mu.Lock()
	paidBefore := len(w.Set.Paid)
	attempt := w.Set.Attempts + 1
	willFail := w.Set.FailAt[attempt]
	w.Set.mu.Unlock()
	ctx, cancel := d.ctx()
	defer cancel()
	if d.faultWithdrawOnly && storedCredit.Sign() != 0 {
		// (the one storage error of the run is spent on a withdrawal that has credit to lose or to pay twice)
		w.YS.SetDisarmed(false)
	}
	err := via.Call(ctx, nil, "pool_withdraw", wl.WSigned("pool_withdraw", d.nonce(wl.Addr))...)
	if d.faultWithdrawOnly {
		w.YS.SetDisarmed(true)
	}
	d.logf("%s -> %v", op, err)
	w.Set.mu.Lock()
	newPaid := append([]Payment(nil), w.Set.Paid[paidBefore:]...)
	w.Set.mu.Unlock()
	belowMin := w.Cfg.WithdrawMin != nil && total.Cmp(w.Cfg.WithdrawMin) < 0
	storageErr := err != nil && strings.Contains(err.Error(), "injected I/O error")
	switch {
	case storageErr:
		// a storage error made the withdrawal fail: a failed withdrawal pays nothing and changes nothing
		if len(newPaid) != 0 {
			d.bad("C07", "withdraw", "a withdrawal that reported a storage error had already paid", "%s: error %q but %v was settled; the credit is still on the books and can be withdrawn again", op, err, newPaid[0].Amount)
		}
		after, _ := w.Inner.GetAccountBalance(acc)
		if len(newPaid) == 0 && after.Credit.Cmp(storedCredit) != 0 {
			d.bad("C07", "withdraw", "a withdrawal that failed with a storage error changed the balance", "%s: error %q, stored credit %s -> %s", op, err, storedCredit, after.Credit.String())
		}
		d.checkLedger(led, op, new(big.Int), "a refused or failed withdrawal")
		// the mirror follows the store (the failed attempt may or may not have consumed the nonce)
		if w.Ref.Accounts[acc] != nil {
			w.Ref.Accounts[acc].Set(&after.Credit)
		}
	case belowMin || willFail:
		why := "below the minimum"
		if !belowMin {
			why = "settlement failed"
		}
		if err == nil {
			d.bad("C07", "withdraw", "withdrawal reported success although "+why, "%s: balance %s min %v", op, total, w.Cfg.WithdrawMin)
		}
		if len(newPaid) != 0 {
			d.bad("C07", "withdraw", "payment made although "+why, "%s: paid %v", op, newPaid)
		}
		d.checkLedger(led, op, new(big.Int), "a refused or failed withdrawal")
		d.compareState("C07", op)
	default:
		if err != nil {
			if isVerifyFailed(err) {
				d.bad("C04", "verify", "correctly signed fresh request refused", "%s: %v", op, err)
			} else {
				d.bad("C07", "withdraw", "valid withdrawal refused", "%s: balance %s min %v: %v", op, total, w.Cfg.WithdrawMin, err)
			}
			return err
		}
		want := new(big.Int).Set(total)
		if w.Cfg.Fee != nil {
			want.Sub(want, w.Cfg.Fee)
		}
		if len(newPaid) != 1 {
			d.bad("C07", "withdraw", "successful withdrawal settled other than exactly once", "%s: %d settlements", op, len(newPaid))
		} else if newPaid[0].Amount.Cmp(want) != 0 || newPaid[0].Account != acc {
			d.bad("C07", "withdraw", "amount paid is not balance minus fee", "%s: paid %s to %s, balance %s (deposit %s + credit %s) fee %v", op, newPaid[0].Amount, short10(string(newPaid[0].Account)), total, dep, credit, w.Cfg.Fee)
		}
		// the wallet has nothing further to withdraw
		w.Ref.AddAccountBalance(acc, new(big.Int).Neg(credit))
		b, _ := w.Dep.GetAccountBalanceDirect(acc)
		left := new(big.Int).Add(&b.Credit, &b.Deposit)
		if left.Sign() != 0 {
			d.bad("C07", "withdraw", "wallet still holds a balance after a successful withdrawal", "%s: paid %s, but deposit %s + credit %s = %s remain withdrawable", op, want, b.Deposit.String(), b.Credit.String(), left)
		}
		d.checkLedger(led, op, new(big.Int).Neg(storedCredit), "a successful withdrawal (expected: minus the settled credit)")
		d.compareState("C07", op)
	}
	return err
}

// GetAccountBalanceDirect reads a wallet's balance (credit from the inner store, deposit from the table) without yields.
func (sd *SimDeposit) GetAccountBalanceDirect(acc store.Account) (store.Balance, error) {
	b, err := sd.w.Inner.GetAccountBalance(acc)
	if err != nil {
		return b, err
	}
	b.Deposit = *sd.dep(acc)
	return b, nil
}

// ---------------------------------------------------------------- refused requests (C04, C06)

// respell writes a hex identity differently (case of the digits a-f, 0X prefix); mode 0 and 1 leave it alone.
func respell(id string, mode int) string {
	pre, body := "", id
	if strings.HasPrefix(id, "0x") || strings.HasPrefix(id, "0X") {
		pre, body = id[:2], id[2:]
	}
	switch mode {
	case 2:
		return pre + strings.ToLower(body)
	case 3:
		return pre + strings.ToUpper(body)
	case 4:
		if pre != "" {
			return "0X" + body
		}
		// flip the case of the first letter digit
		for i, c := range body {
			if c >= 'a' && c <= 'f' {
				return body[:i] + strings.ToUpper(body[i:i+1]) + body[i+1:]
			}
		}
	}
	return id
}

// forgeSpec describes one altered request.
type forgeSpec struct {
	endpoint string // method actually called
	what     string // alteration class
	args     []interface{}
	identity string // whose nonce must not be consumed
	owner    *Actor
	ownerW   *Wallet
	mustFail bool
	nonce    int64
}

var signedNodeEndpoints = []string{"vipnode_connect", "vipnode_update", "vipnode_peer", "vipnode_host", "vipnode_client"}

func (d *Director) legitParams(endpoint string, a *Actor) interface{} {
	switch endpoint {
	case "vipnode_connect":
		return a.ConnectReq("", "")
	case "vipnode_update":
		return pool.UpdateRequest{PeerInfo: PeerInfos([]string{d.W.Actors[0].ID}), BlockNumber: 7}
	case "vipnode_peer":
		return pool.PeerRequest{Num: 1, Kind: ""}
	case "vipnode_host":
		return pool.HostRequest{Kind: a.Kind, Payout: ""}
	default:
		return pool.ClientRequest{Kind: a.Kind, NumHosts: 1}
	}
}

// alterParams changes one leaf of the decoded parameters.
func alterParams(endpoint string, p interface{}, pick int, other *Actor) interface{} {
	switch v := p.(type) {
	case pool.ConnectRequest:
		switch pick % 4 {
		case 0:
			v.Payout = "0x00000000000000000000000000000000000000aa"
		case 1:
			v.NodeURI = "enode://" + other.ID + "@6.6.6.6:30303"
		case 2:
			v.NodeInfo.IsFullNode = !v.NodeInfo.IsFullNode
		default:
			v.VipnodeVersion = "evil/9"
		}
		return v
	case pool.UpdateRequest:
		switch pick % 3 {
		case 0:
			v.BlockNumber += 1000
		case 1:
			v.PeerInfo = PeerInfos([]string{other.ID})
		default:
			v.Peers = []string{other.ID}
		}
		return v
	case pool.PeerRequest:
		if pick%2 == 0 {
			v.Num += 5
		} else {
			v.Kind = "parity"
		}
		return v
	case pool.HostRequest:
		switch pick % 3 {
		case 0:
			v.Payout = "0x00000000000000000000000000000000000000aa"
		case 1:
			v.NodeURI = "enode://" + other.ID + "@6.6.6.6:30303"
		default:
			v.Kind = "parity"
		}
		return v
	case pool.ClientRequest:
		if pick%2 == 0 {
			v.NumHosts += 2
		} else {
			v.Kind = "parity"
		}
		return v
	}
	return p
}

func flipSigByte(sig string, pos int, hexStyle bool) string {
	if hexStyle {
		b := []byte(sig)
		i := pos % len(b)
		if b[i] == 'a' {
			b[i] = 'b'
		} else {
			b[i] = 'a'
		}
		return string(b)
	}
	raw, err := base64.StdEncoding.DecodeString(sig)
	if err != nil || len(raw) == 0 {
		return sig + "A"
	}
	raw[pos%64] ^= 0x01 // one of R||S (the recovery byte is not part of the verification)
	return base64.StdEncoding.EncodeToString(raw)
}

// Forge sends one altered request (chosen by the PRNG) from the attacker's
// connection and checks: it is refused (C04), nothing changed (C06) and the
// owner's next request with a smaller-but-fresh nonce is still accepted.
func (d *Director) Forge(attacker *Actor, victim *Actor, wl *Wallet) {
	w := d.W
	if attacker == victim {
		for _, x := range w.Actors {
			if x != victim {
				attacker = x
				break
			}
		}
	}
	if attacker == victim {
		return
	}
	d.n++
	if attacker.Conn == nil || attacker.Conn.Closed {
		w.Dial(attacker)
	}
	other := w.Actors[d.choose("forge.other", len(w.Actors))]
	useWallet := wl != nil && d.choose("forge.wallet", 3) == 0
	future := int64(2 * time.Second)
	nonce := time.Now().UnixNano() + future
	var endpoint, what, identity string
	var args []interface{}
	shortSig := false
	if useWallet {
		endpoint = []string{"pool_addNode", "pool_withdraw"}[d.choose("forge.wendpoint", 2)]
		identity = wl.Addr
		extra := []interface{}{}
		if endpoint == "pool_addNode" {
			extra = append(extra, victim.ID)
		}
		args = wl.WSigned(endpoint, nonce, extra...)
		switch d.choose("forge.walter", 7) {
		case 0:
			what = "signature byte flipped"
			args[0] = flipSigByte(args[0].(string), d.choose("forge.pos", 128), true)
		case 1:
			what = "signed by another key"
			ow := &Wallet{Key: attacker.Key, Addr: wl.Addr}
			args = ow.WSigned(endpoint, nonce, extra...)
		case 2:
			what = "nonce altered"
			args[2] = nonce + 1
		case 3:
			what = "identity altered"
			w2 := w.Wallets[(indexOfWallet(w, wl)+1)%len(w.Wallets)]
			if w2 == wl {
				args[1] = "0x00000000000000000000000000000000000000bb"
			} else {
				args[1] = w2.Addr
			}
			// or the same 20 bytes spelled differently: the signature covers the identity string
			identity = args[1].(string)
			if alt := respell(wl.Addr, d.choose("forge.respell", 5)); alt != wl.Addr {
				what = "identity respelled as " + alt
				args[1] = alt
				identity = wl.Addr
			}
		case 4:
			what = "method altered"
			if endpoint == "pool_addNode" {
				// signed as withdraw, sent as addNode
				args = wl.WSigned("pool_withdraw", nonce)
				args = append(args, victim.ID)
			} else {
				args = wl.WSigned("pool_addNode", nonce)
			}
		case 5:
			what = "parameter altered"
			if endpoint == "pool_addNode" {
				args[3] = other.ID
				if other == victim {
					args[3] = attacker.ID
				}
			} else {
				what = "empty signature"
				args[0] = ""
			}
		default:
			what = "garbage signature"
			args[0] = "zz-not-hex"
		}
	} else {
		endpoint = signedNodeEndpoints[d.choose("forge.endpoint", len(signedNodeEndpoints))]
		identity = victim.ID
		params := d.legitParams(endpoint, victim)
		args = victim.Signed(endpoint, nonce, params)
		alter := d.choose("forge.alter", 11)
		if alter == 10 && endpoint != "vipnode_update" {
			alter = 5
		}
		if alter == 10 {
			// a keep-alive signed in the deprecated format (peers, block_number) that the pool still accepts:
			// the peers_info it carries is outside that signature; here it names a peer the signer never
			// reported.  Refusing it or acting on the signed content only are both fine.
			tampered := other.ID
			if tampered == victim.ID {
				tampered = attacker.ID
			}
			if _, e := w.Ref.GetNode(storeID(victim)); e != nil {
				d.Connect(victim, "", "", false)
			}
			w.S.Fault("altered_signed_request")
			d.UpdateOldTampered(victim, []string{w.Actors[0].ID}, tampered, 7)
			return
		}
		switch alter {
		case 0:
			what = "signature byte flipped"
			args[0] = flipSigByte(args[0].(string), d.choose("forge.pos", 64), false)
		case 1:
			what = "signed by another key"
			fake := &Actor{Key: attacker.Key, ID: victim.ID}
			args = fake.Signed(endpoint, nonce, params)
		case 2:
			what = "nonce altered"
			args[2] = nonce + int64(1+d.choose("forge.delta", 3))
		case 3:
			what = "identity altered"
			id2 := other.ID
			if other == victim {
				id2 = attacker.ID
			}
			args[1] = id2
			identity = id2
			if alt := respell(victim.ID, d.choose("forge.respell", 5)); alt != victim.ID {
				what = "identity respelled as " + short10(alt)
				args[1] = alt
				identity = victim.ID
			}
		case 4:
			what = "method altered"
			m2 := signedNodeEndpoints[(indexOfStr(signedNodeEndpoints, endpoint)+1+d.choose("forge.m2", 4))%len(signedNodeEndpoints)]
			args = victim.Signed(m2, nonce, params)
		case 5, 6:
			what = "parameter altered"
			args[3] = alterParams(endpoint, params, d.choose("forge.leaf", 12), other)
			if js1, _ := json.Marshal(args[3]); string(js1) == string(mustJSON(params)) {
				what = "signature byte flipped"
				args[0] = flipSigByte(args[0].(string), 3, false)
			}
		case 7:
			what = "empty signature"
			args[0] = ""
		case 8:
			what = "garbage signature"
			args[0] = "!!!not base64!!!"
		default:
			what = "truncated signature"
			raw, _ := base64.StdEncoding.DecodeString(args[0].(string))
			args[0] = base64.StdEncoding.EncodeToString(raw[:d.choose("forge.trunc", 64)])
			shortSig = true
		}
	}
	_ = shortSig
	op := fmt.Sprintf("#%d forged %s (%s) for %s from %s", d.n, endpoint, what, w.N(identity), attacker.Name)
	w.S.Fault("altered_signed_request")
	before := w.Digest()
	muts := w.YS.MutationCount()
	ctx, cancel := d.ctx()
	defer cancel()
	var res json.RawMessage
	err := attacker.Call(ctx, &res, endpoint, args...)
	d.logf("%s -> %v", op, err)
	if err == nil {
		d.bad("C04", "verify", "altered request accepted: "+endpoint+" ("+what+")", "%s: no error, result %s", op, string(res))
		d.bad("C06", "no_trace", "altered request accepted: "+endpoint+" ("+what+")", "%s: no error", op)
		d.desync = true
		return
	}
	after := w.Digest()
	if before != after {
		d.bad("C06", "no_trace", "refused request changed pool state: "+endpoint, "%s refused with %q but state changed:\n%s", op, err, diffLines(before, after))
	} else if m := w.YS.MutationCount() - muts; m > 0 {
		d.bad("C06", "no_trace", "refused request wrote to the store: "+endpoint, "%s refused with %q but %d mutating store operations ran", op, err, m)
	}
	if !isVerifyFailed(err) && !strings.Contains(err.Error(), "invalid params") {
		d.bad("C04", "verify", "altered request failed for another reason than verification: "+endpoint+" ("+what+")", "%s: %v", op, err)
	}
	// the identity's nonce was not consumed: the owner's next request with a smaller, fresh nonce is accepted
	d.followUp(identity, nonce, op)
}

func mustJSON(v interface{}) []byte {
	b, err := json.Marshal(v)
	if err != nil {
		panic(err)
	}
	return b
}

func indexOfStr(l []string, x string) int {
	for i, y := range l {
		if x == y {
			return i
		}
	}
	return 0
}

func indexOfWallet(w *World, wl *Wallet) int {
	for i, x := range w.Wallets {
		if x == wl {
			return i
		}
	}
	return 0
}

func diffLines(a, b string) string {
	la, lb := strings.Split(a, "\n"), strings.Split(b, "\n")
	var out []string
	for i := 0; i < len(la) || i < len(lb); i++ {
		x, y := "", ""
		if i < len(la) {
			x = la[i]
		}
		if i < len(lb) {
			y = lb[i]
		}
		if x != y {
			out = append(out, "  - "+x, "  + "+y)
		}
		if len(out) > 12 {
			break
		}
	}
	return strings.Join(out, "\n")
}

// followUp: the legitimate owner of identity sends a request whose nonce is
// smaller than the refused one, fresh, and above its last accepted nonce.
func (d *Director) followUp(identity string, refusedNonce int64, op string) {
	w := d.W
	if a := w.byID[identity]; a != nil {
		if _, err := w.Ref.GetNode(store.NodeID(a.ID)); err != nil {
			// not registered yet: a connect is the natural legitimate request
			if e := d.Connect(a, "", "", false); isVerifyFailed(e) {
				d.bad("C06", "nonce_not_consumed", "owner's next request refused after a refused request", "%s; then connect(%s): %v", op, a.Name, e)
			}
			return
		}
		_, e := d.Update(a, nil, 1)
		if isVerifyFailed(e) {
			d.bad("C06", "nonce_not_consumed", "owner's next request refused after a refused request", "%s; then update(%s) with a smaller fresh nonce: %v", op, a.Name, e)
		}
		return
	}
	for _, wl := range w.Wallets {
		if strings.EqualFold(wl.Addr, identity) {
			via := w.Actors[0]
			e := d.AddNode(via, wl, via)
			if isVerifyFailed(e) {
				d.bad("C06", "nonce_not_consumed", "owner's next request refused after a refused request", "%s; then addNode by %s with a smaller fresh nonce: %v", op, wl.Name, e)
			}
		}
	}
}

// Stale sends a correctly signed request whose nonce is not above the last
// accepted one (a replay) or older than the freshness window.
func (d *Director) Stale(a *Actor, tooOld bool) {
	w := d.W
	d.n++
	if a.Conn == nil || a.Conn.Closed {
		w.Dial(a)
	}
	nonce := d.lastNonce[a.ID]
	class := "replayed nonce"
	if tooOld || nonce == 0 {
		nonce = time.Now().Add(-15*time.Minute - time.Duration(d.choose("stale.eps", 3))).UnixNano()
		class = "nonce older than the freshness window"
	}
	endpoint := signedNodeEndpoints[d.choose("stale.endpoint", 3)]
	args := a.Signed(endpoint, nonce, d.legitParams(endpoint, a))
	if alt := respell(a.ID, d.choose("stale.respell", 6)); alt != a.ID && class == "replayed nonce" {
		// the same identity written differently (the signature check reads node ids as hex numbers: upper case
		// and a 0x prefix name the same key), signed by its key for that spelling
		var err error
		args, err = request.NodeRequest{Method: endpoint, NodeID: alt, Nonce: nonce, ExtraArgs: []interface{}{d.legitParams(endpoint, a)}}.SignedArgs(a.Key)
		if err != nil {
			panic(err)
		}
		class = "replayed nonce under another spelling of the node id"
	}
	if old := d.lastOld[a.ID]; old != nil && d.choose("stale.oldformat", 2) == 1 {
		// a captured keep-alive in the deprecated signature format, replayed verbatim
		endpoint, args, class = "vipnode_update", old, "replayed old-format keep-alive"
	}
	op := fmt.Sprintf("#%d stale %s (%s) by %s", d.n, endpoint, class, a.Name)
	w.S.Fault("replayed_or_stale_request")
	before := w.Digest()
	ctx, cancel := d.ctx()
	defer cancel()
	var res json.RawMessage
	err := a.Call(ctx, &res, endpoint, args...)
	d.logf("%s -> %v", op, err)
	if err == nil {
		d.bad("C05", "at_most_once", "request with a "+class+" honoured: "+endpoint, "%s: accepted", op)
		d.bad("C06", "no_trace", "request with a "+class+" honoured: "+endpoint, "%s: accepted", op)
		d.desync = true
		return
	}
	if after := w.Digest(); after != before {
		d.bad("C06", "no_trace", "refused request changed pool state: "+endpoint, "%s refused with %q but state changed:\n%s", op, err, diffLines(before, after))
	}
	// no trace also means: the owner's next legitimate request is served as if nothing had happened
	if _, e := w.Ref.GetNode(storeID(a)); e == nil && d.on["C06"] && !d.W.S.Violated() {
		if _, e2 := d.Update(a, nil, 1); e2 != nil && !isLowBalance(e2) {
			d.bad("C06", "no_trace", "owner's next request refused after a refused request", "%s; then update(%s): %v", op, a.Name, e2)
		}
	}
}

func storeID(a *Actor) store.NodeID { return store.NodeID(a.ID) }

// checkHandedOutURIs: a client asks for every host and parses what it is handed (C19).
func (d *Director) checkHandedOutURIs() {
	w := d.W
	var client *Actor
	for _, a := range w.Actors {
		if !a.IsHost {
			client = a
		}
	}
	if client == nil {
		return
	}
	if _, err := w.Ref.GetNode(storeID(client)); err != nil {
		d.Connect(client, "", "", false)
	}
	hosts, _ := d.Peer(client, len(w.Actors)+2, "", false)
	for _, h := range hosts {
		a := w.byID[string(h.ID)]
		if a == nil {
			continue
		}
		stored := d.storedURI(a.ID)
		if h.URI != stored {
			d.bad("C19", "host_uri", "URI handed to a client differs from the stored one", "host %s: handed %q, stored %q", a.Name, h.URI, stored)
		}
		pu, err := ethnode.ParseNodeURI(h.URI)
		if err != nil || pu.ID() != a.ID {
			d.bad("C19", "host_uri", "URI handed to a client does not carry the host's identity", "host %s: handed %q (parse err %v)", a.Name, h.URI, err)
			continue
		}
		if _, _, err := net.SplitHostPort((*url.URL)(pu).Host); err != nil {
			d.bad("C19", "host_uri", "handed-out host:port does not split", "host %s: handed %q: %v", a.Name, h.URI, err)
		}
	}
}
