package scen

import (
	"fmt"
	"math/big"
	"strings"
	"time"

	"verif/sim/kernel"
)

// profile biases the sequential world generator towards one property.
type profile struct {
	prop    string
	oracles []string
	// op weights
	connect, reconnect, update, peer, addNode, withdraw, forge, stale, advance, deposit, closeConn, legacy int
	minOps, maxOps                                                                                         int
	minBal                                                                                                 []int64 // candidates; -999 = unset
	hostPolicies                                                                                           bool
	uriOverrides                                                                                           bool
	bigPrices                                                                                              bool
	settleFail                                                                                             bool
	storeYields, storeFaults                                                                               bool
	// outage: once a storage error has happened, the following store calls fail too (2-4 in a row)
	outage bool
}

var worldReal = []string{"pool.VipnodePool", "pool/balance payPerInterval", "pool/payment PaymentService", "pool/store memory+badger drivers", "request (sign/verify)", "pool.RemotePool", "jsonrpc2 Remote/Server/Client on both ends"}
var worldStub = []string{"connections (SimCodec, message level)", "agents (scripted actors; host reverse service with ack/error/silent/slow policies)", "on-chain deposit table and settlement handler"}

func regWorld(name string, quick, thorough int, doc string, p profile) {
	Register(&Scenario{Name: name, Property: p.prop, MaxSteps: 20000, Quick: quick, Thorough: thorough, Doc: doc, Real: worldReal, Stub: worldStub,
		Run: func(s *kernel.Sim) { runWorldSeq(s, p) }})
}

func init() {
	regWorld("c01_ledger_seq", 500, 30000,
		"sequential pool histories (connect/reconnect, keep-alives with arbitrary reports, peer requests, account linking, shared wallets, withdrawals, forged and stale requests, low-balance cut-offs, clock advances to > 15 min) on both drivers; after every operation that returns the credit sum (Stats and per-account getters) is unchanged except by a successful withdrawal",
		profile{prop: "C01", oracles: []string{"C01"}, connect: 4, reconnect: 2, update: 10, peer: 3, addNode: 3, withdraw: 2, forge: 1, stale: 1, advance: 6, deposit: 1, closeConn: 1, legacy: 1,
			minOps: 10, maxOps: 60, minBal: []int64{-999, -999, -5, 0, 50, 100000}, bigPrices: true})
	regWorld("c01_ledger_faults", 400, 25000,
		"the sequential ledger histories with injected storage errors (any store operation of the pool may fail once or a few times per run, as with a full disk or an I/O error): after every operation that returns - succeeded or failed - the credit sum is unchanged (minus the stored credit for a successful withdrawal)",
		profile{prop: "C01", oracles: []string{"C01"}, connect: 3, reconnect: 1, update: 12, peer: 1, addNode: 3, withdraw: 2, advance: 6, deposit: 1,
			minOps: 10, maxOps: 50, minBal: []int64{-999, -999, 0, 50}, storeFaults: true})
	regWorld("c01_ledger_outage", 150, 8000,
		"the ledger histories with a storage outage: once a store operation of the pool has failed, the next one to three fail as well (a disk that is full stays full for a moment); after every operation that returns the credit sum is unchanged",
		profile{prop: "C01", oracles: []string{"C01"}, connect: 3, reconnect: 1, update: 12, peer: 1, addNode: 3, withdraw: 2, advance: 6, deposit: 1,
			minOps: 10, maxOps: 50, minBal: []int64{-999, -999, 0, 50}, storeFaults: true, outage: true})
	regWorld("c02_billing_faults", 600, 25000,
		"keep-alives with injected storage errors: a keep-alive that returns an error (other than the low-balance cut-off) must leave every balance as it was - all or nothing",
		profile{prop: "C02", oracles: []string{"C02F"}, connect: 3, reconnect: 1, update: 14, addNode: 2, advance: 8,
			minOps: 10, maxOps: 50, minBal: []int64{-999}, storeFaults: true, storeYields: true}) // (yield points: a little time passes between the store calls of one request)
	regWorld("c02_billing_seq", 500, 30000,
		"keep-alive runs of light clients with stable and changing tracked-peer sets, elapsed times from 0 to days, prices up to 2^200, peers sharing the client's wallet, host keep-alives, reconnects between keep-alives; every balance is compared with floor(elapsed*price/interval) per active peer; sliced spans are compared with the unsliced total",
		profile{prop: "C02", oracles: []string{"C02"}, connect: 2, reconnect: 1, update: 16, peer: 0, addNode: 2, advance: 10, deposit: 0, closeConn: 0,
			minOps: 10, maxOps: 60, minBal: []int64{-999}, bigPrices: true})
	regWorld("c03_minbalance_seq", 500, 30000,
		"minimum balance unset / negative / zero / positive; balances placed around the threshold by deposit and credit; clients billed across the threshold; hosts answering the disconnect fan-out with ack / error / silence; refusal and cut-off exactly when deposit+credit (after the charge) < minimum, error carries the stored balance, connected hosts are told to disconnect",
		profile{prop: "C03", oracles: []string{"C03"}, connect: 5, reconnect: 2, update: 12, peer: 1, addNode: 3, advance: 8, deposit: 4, closeConn: 1, legacy: 1,
			minOps: 10, maxOps: 50, minBal: []int64{-999, -7, 0, 1, 40, 1000, 250000}, hostPolicies: true})
	regWorld("c04_forged_seq", 400, 25000,
		"inside live sessions an adversary sends, for every signed endpoint, a fresh correctly signed request with exactly one component altered (method, identity, nonce, one parameter leaf, one signature byte, other key, empty / garbage / truncated signature); every altered request must be refused and every unaltered one accepted by the verification step",
		profile{prop: "C04", oracles: []string{"C04"}, connect: 3, update: 5, peer: 2, addNode: 2, withdraw: 1, forge: 14, stale: 0, advance: 3, deposit: 1,
			minOps: 12, maxOps: 50, minBal: []int64{-999}})
	regWorld("c05_replay_seq", 300, 20000,
		"through the real RPC path: captured requests (current and deprecated signature format) replayed later, requests with nonces older than the 15-minute window, between legitimate operations and clock advances beyond the window; each is honoured at most once",
		profile{prop: "C05", oracles: []string{"C05"}, connect: 3, reconnect: 1, update: 8, peer: 2, addNode: 1, stale: 9, advance: 5,
			minOps: 10, maxOps: 45, minBal: []int64{-999}})
	regWorld("c06_refused_seq", 400, 25000,
		"refused requests of every kind (bad signature, wrong key, malformed signature, stale or replayed nonce) to every signed endpoint between legitimate operations; the digest of the whole pool state (nodes, peers, links, balances, connected hosts, instructions hosts received, settlements) must not change and the owner's next request with a smaller fresh nonce must be accepted",
		profile{prop: "C06", oracles: []string{"C06"}, connect: 3, update: 5, peer: 2, addNode: 2, withdraw: 1, forge: 10, stale: 4, advance: 3, deposit: 1,
			minOps: 12, maxOps: 50, minBal: []int64{-999}})
	regWorld("c07_withdraw_seq", 400, 25000,
		"wallets accrue credit through real billing, deposits come from the simulated chain; withdrawals valid / repeated / below the minimum, fee none or constant, settlement failing at chosen attempts; amount paid = balance - fee, nothing left to withdraw afterwards, nothing paid twice, nothing paid or changed on refusal or failure",
		profile{prop: "C07", oracles: []string{"C07"}, connect: 3, update: 10, addNode: 4, withdraw: 8, advance: 6, deposit: 3, forge: 1,
			minOps: 12, maxOps: 50, minBal: []int64{-999}, settleFail: true})
	regWorld("c07_withdraw_faults", 300, 20000,
		"accrual and withdrawals with one injected storage error per run (balance read, credit debit, nonce save ...): a withdrawal that reports an error has paid nothing and changed nothing, so that the earnings are neither lost nor payable twice",
		profile{prop: "C07", oracles: []string{"C07"}, connect: 3, update: 8, addNode: 4, withdraw: 10, advance: 5, deposit: 2,
			minOps: 12, maxOps: 45, minBal: []int64{-999}, storeFaults: true})
	regWorld("c08_peers_seq", 500, 30000,
		"populations of hosts and clients of kinds geth / parity / unknown, fresh or stale, connected / closed / reconnected, already peered or not; requested counts -2..supply+3, MaxRequestHosts 0/1/2/5; vipnode_peer and the legacy vipnode_client; per-host whitelist policy ack / error / silent / slow; acknowledgement arrival orders chosen by the scheduler; returned hosts must be eligible and acknowledged before the reply, counts bounded, error only without hosts, reply within the timeout",
		profile{prop: "C08", oracles: []string{"C08"}, connect: 5, reconnect: 2, update: 6, peer: 12, advance: 5, closeConn: 2, legacy: 2,
			minOps: 10, maxOps: 45, minBal: []int64{-999}, hostPolicies: true})
	regWorld("c09_registry_faults", 300, 20000,
		"the registry histories with one injected storage error per run in a registration (SetNode, the nonce save): a registration that fails leaves the host where it was - not registered on the connection of the failed attempt",
		profile{prop: "C09", oracles: []string{"C09"}, connect: 4, reconnect: 8, update: 1, peer: 4, advance: 1, closeConn: 4,
			minOps: 8, maxOps: 30, minBal: []int64{-999}, storeFaults: true})
	regWorld("c09_registry_seq", 500, 30000,
		"1-3 hosts; connect, reconnect on a new connection, close of the old or the new connection in every order, peer requests in between; the count of connected hosts equals the hosts whose latest registered connection is open, closed connections are never instructed, a reconnected host is instructed on its new connection",
		profile{prop: "C09", oracles: []string{"C09"}, connect: 3, reconnect: 6, update: 2, peer: 8, advance: 1, closeConn: 6,
			minOps: 8, maxOps: 40, minBal: []int64{-999}})
	regWorld("c11_update_rpc_seq", 400, 25000,
		"keep-alives through vipnode_update with gaps around the 120 s window: UpdateResponse.InvalidPeers / ActivePeers must equal the model's evicted / tracked sets and the stored tracked sets must follow the model",
		profile{prop: "C11", oracles: []string{"C11"}, connect: 3, reconnect: 1, update: 16, advance: 10,
			minOps: 10, maxOps: 60, minBal: []int64{-999}})
	regWorld("c19_uri_seq", 500, 30000,
		"hosts registering (connect and legacy host) with node-URI overrides {absent, other id, empty user, user:password, missing / unspecified host, IPv6 literal with and without port, DNS names, paths, queries, non-enode schemes} from connections with IPv4, IPv6, DNS, empty and unspecified source addresses; what is stored and handed to a client is parsed with the agent-side parser and net.SplitHostPort",
		profile{prop: "C19", oracles: []string{"C19"}, connect: 12, reconnect: 4, update: 2, peer: 4, advance: 1, legacy: 3,
			minOps: 6, maxOps: 30, minBal: []int64{-999}, uriOverrides: true})
}

func init() {
	Register(&Scenario{Name: "c02_stall", Property: "C02", MaxSteps: 20000, Quick: 300, Thorough: 20000,
		Doc:  "one light client with a constant peer set sends k keep-alives while simulated time also passes inside the handler (between the store calls of one update: handler stalls): the total credited to a peer over the run must not exceed floor(span x price / interval) for the span between the first check-in and the last stamped check-in - no stretch of time is charged twice",
		Real: worldReal, Stub: worldStub, Run: runC02Stall})
}

func runC02Stall(s *kernel.Sim) {
	cfg := WorldCfg{Driver: []string{"memory", "badger"}[s.Choose("driver", 2)], Hosts: 1, Clients: 1, Wallets: 0}
	cfg.Interval = []time.Duration{time.Second, time.Minute}[s.Choose("interval", 2)]
	cfg.Price = big.NewInt([]int64{1000, 1000000007, 60}[s.Choose("price", 3)])
	cfg.StoreYields = 3
	w := NewWorld(s, cfg)
	s.IdleSteps = []time.Duration{time.Millisecond, 50 * time.Millisecond}
	// time passes while handlers are parked between their store calls
	s.TimeWeight = 2
	s.TimeSteps = []time.Duration{time.Millisecond, 20 * time.Millisecond, 300 * time.Millisecond, time.Second}
	d := NewDirector(w) // no per-operation oracles: this scenario judges the whole span
	host, client := w.Actors[0], w.Actors[1]
	k := 2 + s.Choose("k", 8)
	var first, last time.Time
	var stalls time.Duration
	done := false
	s.Go("director", func() {
		defer func() { done = true }()
		d.Connect(host, "", "", false)
		d.Connect(client, "", "", false)
		d.Update(client, []string{host.ID}, 0) // establishes the tracked peer
		n, _ := w.Inner.GetNode(storeID(client))
		first = n.LastSeen
		_, c0, _ := w.NodeCredit(host.ID)
		for i := 0; i < k && !s.Violated(); i++ {
			d.Advance([]time.Duration{time.Second, 7 * time.Second, 61 * time.Second, 500 * time.Millisecond}[d.choose("gap", 4)])
			// the host keeps checking in so that it never expires
			d.Update(host, nil, uint64(i))
			w.mu.Lock()
			nRep := len(client.Conn.replies)
			w.mu.Unlock()
			if _, err := d.Update(client, []string{host.ID}, uint64(i)); err != nil {
				s.Violate("billing", "keep-alive of a healthy client fails", "update %d: %v", i, err)
				return
			}
			n, _ := w.Inner.GetNode(storeID(client))
			last = n.LastSeen
			w.mu.Lock()
			if len(client.Conn.replies) > nRep {
				stalls += client.Conn.replies[nRep].At.Sub(n.LastSeen) // upper bound of stamp -> charge
			}
			w.mu.Unlock()
		}
		_, c1, _ := w.NodeCredit(host.ID)
		got := new(big.Int).Sub(c1, c0)
		span := last.Sub(first)
		max := creditFor(span, cfg.Price, cfg.Interval)
		if got.Cmp(max) > 0 {
			key := "time between the check-in stamp and the charge is billed again by the next keep-alive (handler stall)"
			if got.Cmp(creditFor(span+stalls+time.Duration(k)*handlerSlack, cfg.Price, cfg.Interval)) > 0 {
				key = "more time is billed than passed, beyond the handler stalls"
			}
			s.Violate("no_double_charge", key, "%d keep-alives over a span of %s (stalls inside handlers at most %s): peer credited %s, span x price / interval = %s (price %s per %s)", k, span, stalls, got, max, cfg.Price, cfg.Interval)
		}
		if min := new(big.Int).Sub(max, big.NewInt(int64(k+1))); got.Cmp(min) < 0 {
			s.Violate("no_double_charge", "less is billed than the span minus one unit per keep-alive", "%d keep-alives over %s: peer credited %s, expected at least %s", k, span, got, min)
		}
	})
	res := s.Drive(kernel.DriveOpts{IdleCap: time.Hour, Until: func() bool { return done }})
	if res != kernel.Done && res != kernel.Stopped {
		s.Violate("liveness", "an operation never returns", "ended %s", res)
	}
}

var srcAddrs = []string{"10.1.2.3:5555", "[2001:db8::7]:4444", "host.example.org:3333", "[::1]:2222", "203.0.113.9:1", "[fe80::1]:9", ":7777", "[::]:8888", "0.0.0.0:9999", "[fe80::1%eth0]:51234", "[fe80::5%abc0]:6"}

func overrides(a, other *Actor, pick int) string {
	switch pick % 29 {
	case 28:
		return "enode://" + strings.ToUpper(a.ID) + "@198.51.100.10:31010" // its own id, upper-case hex digits
	case 25:
		return "enode://" + a.ID + "@[::%25eth0]:30303" // the unspecified address, with a zone: still nowhere to dial
	case 26:
		return "enode://" + a.ID + "@1:2:3" // neither an address nor a name
	case 27:
		return "enode://" + a.ID + "@[0:0:0:0:0:0:0:0%25lo]"
	case 22:
		return "enode://" + a.ID + "@198.51.100.4:99999" // not a port: nobody can dial that
	case 23:
		return "enode://" + a.ID + "@198.51.100.4:0"
	case 24:
		return "enode://" + a.ID + "@[2001:db8::43]:65536"
	case 20:
		return "enode://" + a.ID + "@2001:db8::42" // IPv6 address without brackets: what the agent's --node-host / --enode.host produce for it
	case 21:
		return "enode://" + a.ID + "@fe80::1:2" // same; read as host:port it would be a host "fe80::1" that is not even this address
	case 18:
		return "enode://" + a.ID // an id without an address
	case 19:
		return "enode://" + other.ID // somebody else's id without an address
	case 16:
		return "enode://" + a.ID + "@[fe80::2%25eth1]:30306" // IPv6 literal with a zone
	case 17:
		return "enode://" + a.ID + "@[::]:30303" // what geth reports: unspecified host, the connection's address counts
	case 0, 1, 2:
		return ""
	case 3:
		return "enode://" + a.ID + "@198.51.100.4:30999"
	case 4:
		return "enode://" + other.ID + "@198.51.100.4:30999" // another identity
	case 5:
		return "enode://@198.51.100.5:31000" // empty user
	case 6:
		return "enode://" + a.ID + ":secret@198.51.100.6:31001"
	case 7:
		return "enode://" + a.ID + "@:31002" // missing host
	case 8:
		return "enode://" + a.ID + "@[::]:31003" // unspecified host
	case 9:
		return "enode://" + a.ID + "@[2001:db8::99]:31004"
	case 10:
		return "enode://" + a.ID + "@[2001:db8::98]"
	case 11:
		return "enode://" + a.ID + "@node.example.net:31005"
	case 12:
		return "enode://" + a.ID + "@198.51.100.7:31006/some/path?discport=1"
	case 13:
		return "http://" + a.ID + "@198.51.100.8:80"
	case 14:
		return "enode://" + a.ID + "@198.51.100.9"
	default:
		return "enode://" + a.ID + "@0.0.0.0:31007"
	}
}

func runWorldSeq(s *kernel.Sim, p profile) {
	cfg := WorldCfg{Driver: []string{"memory", "badger"}[s.Choose("driver", 2)]}
	cfg.Hosts = 1 + s.Choose("hosts", 4)
	cfg.Clients = 1 + s.Choose("clients", 3)
	cfg.Wallets = 1 + s.Choose("wallets", 3)
	cfg.Interval = []time.Duration{time.Minute, time.Second, time.Hour, 7 * time.Millisecond}[s.Choose("interval", 4)]
	prices := []string{"1000", "1", "60", "1000000000000000", "7"}
	if p.bigPrices {
		prices = append(prices, "1606938044258990275541962092341162602522202993782792835301376", "18446744073709551617") // 2^200, 2^64+1
	}
	cfg.Price, _ = new(big.Int).SetString(prices[s.Choose("price", len(prices))], 10)
	if mb := p.minBal[s.Choose("minbal", len(p.minBal))]; mb != -999 {
		cfg.MinBalance = big.NewInt(mb)
	}
	cfg.MaxRequestHosts = []int{0, 0, 1, 2, 5}[s.Choose("maxhosts", 5)]
	if s.Choose("fee", 2) == 1 {
		cfg.Fee = big.NewInt(25)
	}
	if s.Choose("wmin", 2) == 1 {
		cfg.WithdrawMin = big.NewInt(50)
	}
	cfg.PendingLimit = s.Choose("pendinglimit", 2) == 1
	if p.storeYields {
		cfg.StoreYields = 2
	}
	w := NewWorld(s, cfg)
	s.IdleSteps = []time.Duration{time.Millisecond, 50 * time.Millisecond, time.Second, 3 * time.Second}
	if p.uriOverrides {
		for _, a := range w.Actors {
			a.Addr = srcAddrs[s.Choose("srcaddr", len(srcAddrs))]
		}
	}
	for _, a := range w.Actors {
		a.Kind = []string{"geth", "geth", "parity", ""}[s.Choose("kind", 4)]
		if p.hostPolicies && a.IsHost {
			a.Policy = []HostPolicy{PolicyAck, PolicyAck, PolicyAck, PolicyError, PolicySilent, PolicySlow, PolicyDeaf}[s.Choose("policy", 7)]
			a.AckValue = s.Choose("ackvalue", 4) == 0
		}
		if s.Choose("haswallet", 3) != 0 {
			a.Wallet = w.Wallets[s.Choose("wallet", len(w.Wallets))]
		}
	}
	if p.settleFail {
		for k := 1; k <= 8; k++ {
			if s.Choose("settlefail", 4) == 0 {
				w.Set.FailAt[k] = true
			}
		}
	}
	if p.hostPolicies {
		s.SetYield("hostsvc", 3)
	}
	if p.storeFaults {
		ops := []string{"AddNodeBalance", "AddNodeBalance", "AddAccountBalance", "UpdateNodePeers", "NodePeers", "GetNodeBalance", "GetNode", "SetNode", "AddAccountNode", "GetAccountBalance", "CheckAndSaveNonce"}
		if p.prop == "C07" {
			ops = []string{"AddAccountBalance", "AddAccountBalance", "GetAccountBalance", "CheckAndSaveNonce", "AddNodeBalance"}
		}
		if p.prop == "C09" {
			ops = []string{"SetNode", "SetNode", "CheckAndSaveNonce"}
		}
		if p.prop == "C02" {
			// what a keep-alive does most is crediting peers: that is where most of its storage errors land
			ops = []string{"AddNodeBalance", "AddNodeBalance", "AddNodeBalance", "AddNodeBalance", "UpdateNodePeers", "NodePeers", "GetNodeBalance", "GetNode", "SetNode", "CheckAndSaveNonce"}
		}
		w.YS.FailPermille = map[string]int{}
		for k := 1 + s.Choose("nfaultops", 3); k > 0; k-- {
			w.YS.FailPermille[ops[s.Choose("faultop", len(ops))]] = []int{50, 150, 400}[s.Choose("faultrate", 3)]
		}
		w.YS.FailBudget = 1 // one storage error per run: without transactions across store calls nothing can be promised for two
		if p.outage {
			w.YS.FailBudget = 2 + s.Choose("outage", 3)
			w.YS.Streak = true
		}
	}
	d := NewDirector(w, p.oracles...)
	if p.outage {
		d.keySuffix = " (storage outage: several store calls in a row fail)"
	}
	if p.storeFaults && p.prop == "C09" {
		// only registrations meet storage errors here
		d.faultConnectOnly = true
		w.YS.SetDisarmed(true)
	}
	if p.storeFaults && p.prop == "C02" && s.Choose("faultfocus", 2) == 1 {
		// the one storage error of the run is kept for a keep-alive that has several peers to pay
		d.faultBigUpdateOnly = true
		w.YS.SetDisarmed(true)
	}
	if p.storeFaults && p.prop == "C07" {
		// only withdrawals meet storage errors here, everything else keeps the exact model
		d.faultWithdrawOnly = true
		w.YS.SetDisarmed(true)
	}
	nops := p.minOps + s.Choose("nops", p.maxOps-p.minOps+1)
	weights := []int{p.connect, p.reconnect, p.update, p.peer, p.addNode, p.withdraw, p.forge, p.stale, p.advance, p.deposit, p.closeConn, p.legacy}
	total := 0
	for _, x := range weights {
		total += x
	}
	gapsW := []time.Duration{time.Second, 30 * time.Second, 59 * time.Second, 60 * time.Second, 90 * time.Second, 120*time.Second - 1, 120 * time.Second, 120*time.Second + 1,
		5 * time.Minute, 16 * time.Minute, 1, 999 * time.Millisecond, 36 * time.Hour, 0}
	anyActor := func() *Actor { return w.Actors[d.choose("actor", len(w.Actors))] }
	s.Go("director", func() {
		// everybody connects once first (most properties need a populated pool)
		for _, a := range w.Actors {
			if d.choose("initconnect", 6) != 0 && !s.Violated() && !d.desync {
				payout := ""
				if a.Wallet != nil && d.choose("payout", 2) == 1 {
					payout = a.Wallet.Addr
				}
				d.Connect(a, payout, "", false)
			}
		}
		for i := 0; i < nops && !s.Violated() && !d.desync; i++ {
			r := d.choose("op", total)
			k := 0
			for r >= weights[k] {
				r -= weights[k]
				k++
			}
			s.SigMix(fmt.Sprint(k))
			switch k {
			case 0, 1: // connect / reconnect on a new connection
				a := anyActor()
				if k == 1 && a.Conn != nil {
					// reconnect: new connection; the old one stays open or is closed later
					old := a.Conn
					w.Dial(a)
					if d.choose("closeold", 3) == 0 {
						d.CloseConn(old)
					}
				}
				if p.prop == "C09" && a.IsHost && d.choose("rolechange", 8) == 0 {
					// the node behind this identity now runs as a light client: it registers as one
					a.IsHost = false
					s.Fault("host_registers_again_as_light_client")
				}
				payout, ov := "", ""
				if a.Wallet != nil && d.choose("payout", 3) == 0 {
					payout = a.Wallet.Addr
				}
				if p.uriOverrides && a.IsHost {
					ov = overrides(a, anyActor(), d.choose("override", 29))
				}
				d.Connect(a, payout, ov, false)
			case 2: // keep-alive
				a := anyActor()
				var rep []string
				for n := d.choose("nrep", 5); n > 0; n-- {
					switch d.choose("rep", 10) {
					case 0:
						rep = append(rep, "ffff"+a.ID[4:]) // unknown id
					case 1:
						rep = append(rep, a.ID) // itself
					case 2:
						if len(rep) > 0 {
							rep = append(rep, rep[0]) // duplicate
						}
					default:
						rep = append(rep, anyActor().ID)
					}
				}
				sentAt := time.Now().UnixNano()
				var uerr error
				if d.choose("oldformat", 5) == 0 {
					_, uerr = d.UpdateOld(a, rep, uint64(i))
				} else {
					_, uerr = d.Update(a, rep, uint64(i))
				}
				if uerr == nil {
					// an accepted request carried a nonce >= sentAt: replaying sentAt later is a stale nonce
					d.lastNonce[a.ID] = sentAt
				}
			case 3: // peer request
				a := anyActor()
				asked := d.choose("asked", len(w.Actors)+5) - 2
				if d.choose("hugecount", 12) == 0 {
					asked = []int{1 << 31, 1 << 40, 1<<63 - 1, -1 << 31}[d.choose("huge", 4)]
				}
				kind := []string{"", "", "geth", "parity", "unknown", "besu", "Geth", "pantheon"}[d.choose("pkind", 8)]
				if _, err := w.Ref.GetNode(storeID(a)); err != nil {
					d.Connect(a, "", "", false)
				}
				d.Peer(a, asked, kind, false)
			case 4:
				if len(w.Wallets) > 0 {
					d.AddNode(anyActor(), w.Wallets[d.choose("wallet", len(w.Wallets))], anyActor())
				}
			case 5:
				if len(w.Wallets) > 0 {
					d.Withdraw(anyActor(), w.Wallets[d.choose("wallet", len(w.Wallets))])
				}
			case 6:
				var wl *Wallet
				if len(w.Wallets) > 0 {
					wl = w.Wallets[d.choose("wallet", len(w.Wallets))]
				}
				d.Forge(anyActor(), anyActor(), wl)
			case 7:
				d.Stale(anyActor(), d.choose("tooold", 2) == 1)
			case 8:
				if (p.prop == "C02" || p.prop == "C01") && !p.storeFaults && d.choose("clockback", 10) == 0 {
					// the pool's clock is set back (NTP step, restored VM snapshot): a check-in lies in the future
					d.ClockBack(anyActor(), []time.Duration{time.Millisecond, 30 * time.Second, 59 * time.Minute}[d.choose("backby", 3)])
					break
				}
				d.Advance(gapsW[d.choose("gap", len(gapsW))])
			case 9:
				if len(w.Wallets) > 0 {
					amt := []int64{0, 1, 39, 40, 41, 49, 50, 51, 1000, 250000, 249999}[d.choose("dep", 11)]
					d.Deposit(w.Wallets[d.choose("wallet", len(w.Wallets))], big.NewInt(amt))
				}
			case 10:
				// close any open connection of an actor: the current one or an
				// older one left open by a reconnect
				a := anyActor()
				if p.prop == "C09" && d.choose("shared", 4) == 0 {
					// a second host registers over this host's connection, then the connection goes away
					d.SharedThenClose(a, anyActor())
					continue
				}
				var open []*Conn
				for _, c := range w.Conns {
					if c.A == a && !c.Closed {
						open = append(open, c)
					}
				}
				if len(open) > 0 {
					d.CloseConn(open[d.choose("whichconn", len(open))])
				}
			case 11: // legacy host / client registration
				a := anyActor()
				if a.IsHost {
					ov := ""
					if p.uriOverrides {
						ov = overrides(a, anyActor(), d.choose("override", 29))
					}
					d.Connect(a, "", ov, true)
				} else {
					d.Peer(a, d.choose("asked", 6)-2, a.Kind, true)
				}
			}
		}
		if !s.Violated() && p.prop == "C19" {
			d.checkHandedOutURIs()
		}
	})
	res := s.Drive(kernel.DriveOpts{IdleCap: 3 * time.Hour})
	if res != kernel.Done && res != kernel.Stopped {
		s.Violate("liveness", "an operation never returns", "sequential world ended %s", res)
	}
	s.ProbeN("world.ops", d.n)
}
