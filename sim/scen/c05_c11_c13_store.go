package scen

import (
	"bytes"
	"encoding/gob"
	"fmt"
	"math/big"
	"os"
	"os/exec"
	"sort"
	"strings"
	"sync"
	"time"

	"github.com/anishathalye/porcupine"
	"github.com/dgraph-io/badger/v2"
	"github.com/vipnode/vipnode/v2/pool/store"
	badgerstore "github.com/vipnode/vipnode/v2/pool/store/badger"
	"verif/sim/kernel"
	"verif/sim/models"
	"verif/sim/seams"
)

func init() {
	Register(&Scenario{
		Name: "c05_nonce_hist", Property: "C05", MaxSteps: 10, Quick: 900, Thorough: 60000,
		Doc:  "per-identity nonce sequences (equal, decreasing, boundary of the 15-minute window, ahead of the clock, replays of every accepted nonce) with clock advances up to 40 minutes and close/reopen of the persistent store between attempts; memory and badger drivers against a never-expiring high-water-mark model",
		Real: []string{"pool/store/memory", "pool/store/badger", "badger v2.0.3 TTL handling"},
		Stub: []string{"none (sequential; simulated clock)"},
		Run:  runC05Hist,
	})
	Register(&Scenario{
		Name: "c05_nonce_race", Property: "C05", MaxSteps: 3000, Quick: 700, Thorough: 40000,
		Doc:  "2-4 concurrent submissions (duplicates and neighbours) of nonces for 1-2 identities, interleaved before/after the store call and inside the badger transaction (hook H1: real optimistic conflicts); at most one acceptance per (identity, nonce) and the accept/reject history must be linearizable against a high-water-mark register (porcupine)",
		Real: []string{"pool/store/memory", "pool/store/badger", "badger optimistic transactions"},
		Stub: []string{"callers (harness tasks)"},
		Run:  runC05Race,
	})
	Register(&Scenario{
		Name: "c11_peers_hist", Property: "C11", MaxSteps: 10, Quick: 900, Thorough: 60000,
		Doc:  "a node and 2-4 peers: keep-alives of each with gaps around the 120 s window (119.999999999 s, 120 s, 120.000000001 s ...), reports that add, drop, re-add peers, unknown ids, duplicates, the node itself, peers reconnecting; both drivers against the model, plus the direct invariant that a peer which keeps checking in and keeps being reported is never evicted",
		Real: []string{"pool/store/memory", "pool/store/badger"},
		Stub: []string{"none (sequential; simulated clock)"},
		Run:  runC11Hist,
	})
	Register(&Scenario{
		Name: "c13_restart", Property: "C13", MaxSteps: 4000, Quick: 160, Thorough: 6000, Level: "fault_enumeration",
		Doc:  "per generated history (<= 25 store operations on the badger driver): a crash image of the database directory is taken at EVERY in-transaction yield point of EVERY operation and after every operation, reopened and compared with the model before / after the interrupted operation; while the writer is parked a concurrent reader compares the live store with the pre-operation state; close + reopen after every operation",
		Real: []string{"pool/store/badger", "badger v2.0.3 on-disk format, value-log replay on open", "badger.MigrateLatest"},
		Stub: []string{"process kill = copy of the database directory while every goroutine is parked (page-cache view, as after SIGKILL)"},
		Run:  runC13Restart,
	})
	Register(&Scenario{
		Name: "c13_migrate_big", Property: "C13", MaxSteps: 200, Quick: 6, Thorough: 40, Level: "fault_enumeration",
		Doc:  "a format-0 / format-1 database of a pool that has been running for long: 20 000 to 120 000 identities have a saved nonce (format 1 never expired them); it must open, keep its nodes and balances, and refuse the saved nonces",
		Real: []string{"pool/store/badger migration.go / versions.go", "badger v2.0.3"},
		Stub: []string{"old-format databases are synthesised with the gob encoding the driver uses"},
		Run:  runC13MigrateBig,
	})
	Register(&Scenario{
		Name: "c13_migrate", Property: "C13", MaxSteps: 200, Quick: 120, Thorough: 4000, Level: "fault_enumeration",
		Doc:  "databases of on-disk format 0, 1 and 2 written key by key with raw badger (nodes, peers, links, balances, trial balances, nonce keys of many lengths), opened through badgerStore.Open; crash image at the migration's yield point; second open must change nothing",
		Real: []string{"pool/store/badger migration.go / versions.go", "badger v2.0.3"},
		Stub: []string{"old-format databases are synthesised with the gob encoding the driver uses"},
		Run:  runC13Migrate,
	})
}

// ------------------------------------------------------------------ C05 sequential

type reopener struct {
	s       *kernel.Sim
	dir     string
	tableMB int
	d       *storeDiff
}

func (r *reopener) reopen(production bool) {
	seams.CloseStore(r.s, r.d.bad)
	mb := r.tableMB
	if production {
		mb = 0
	}
	st, err := seams.OpenStore(r.s, "badger", r.dir, mb)
	if err != nil {
		r.s.Violate("reopen", "store does not reopen", "reopen failed: %v", err)
		r.d.bad = nil
		return
	}
	r.d.bad = st
	r.s.Fault("close_reopen_store")
}

func runC05Hist(s *kernel.Sim) {
	dir := seams.ScratchDir(s, "c05")
	tableMB := []int{1, 2}[s.Choose("tableMB", 2)]
	bad, err := seams.OpenStore(s, "badger", dir, tableMB)
	if err != nil {
		panic("open badger: " + err.Error())
	}
	mem, _ := seams.OpenStore(s, "memory", "", 0)
	d := newStoreDiff(s, mem, bad)
	ro := &reopener{s: s, dir: dir, tableMB: tableMB, d: d}
	defer func() {
		if d.bad != nil {
			seams.CloseStore(s, d.bad)
		}
	}()
	ids := []string{"na", "nb", "0xwallet"}
	nids := 1 + s.Choose("nids", 3)
	n := 8 + s.Choose("nops", 40)
	longGaps := []time.Duration{time.Second, 500 * time.Millisecond, 999 * time.Millisecond, time.Minute, 14*time.Minute + 59*time.Second, 15 * time.Minute, 15*time.Minute + 1, 16 * time.Minute, 40 * time.Minute, 1}
	for i := 0; i < n && !s.Violated() && d.bad != nil; i++ {
		d.i = i
		switch c := s.Choose("op", 10); {
		case c < 6:
			id := ids[s.Choose("id", nids)]
			d.doNonce(id, d.genNonce(id))
			s.SigMix("n")
		case c < 9:
			d.doAdvance(longGaps[s.Choose("gap", len(longGaps))])
		default:
			ro.reopen(s.Choose("prodopts", 4) == 0)
			s.SigMix("reopen")
		}
	}
	// independence: nonces of one identity never affect another (checked by
	// the per-identity model); every accepted nonce, replayed now, is refused
	for _, id := range ids[:nids] {
		acc := d.accepted[id]
		if len(acc) > 6 {
			acc = acc[len(acc)-6:]
		}
		for _, nonce := range acc {
			if s.Violated() || d.bad == nil {
				break
			}
			d.i++
			d.doNonce(id, nonce)
		}
	}
}

// ------------------------------------------------------------------ C05 concurrent

type nonceIn struct {
	ID    string
	Nonce int64
}
type nonceOut struct{ R int } // 0 accepted, 1 invalid nonce, 2 other error (no effect)

var nonceModel = porcupine.Model{
	Partition: func(history []porcupine.Operation) [][]porcupine.Operation {
		m := map[string][]porcupine.Operation{}
		var keys []string
		for _, op := range history {
			k := op.Input.(nonceIn).ID
			if _, ok := m[k]; !ok {
				keys = append(keys, k)
			}
			m[k] = append(m[k], op)
		}
		sort.Strings(keys)
		var r [][]porcupine.Operation
		for _, k := range keys {
			r = append(r, m[k])
		}
		return r
	},
	Init: func() interface{} { return int64(0) },
	Step: func(state, input, output interface{}) (bool, interface{}) {
		hw := state.(int64)
		in, out := input.(nonceIn), output.(nonceOut)
		switch out.R {
		case 0:
			return in.Nonce > hw, in.Nonce
		case 1:
			return in.Nonce <= hw, hw
		default:
			return true, hw // failed without effect (transaction conflict)
		}
	},
	Equal: func(a, b interface{}) bool { return a.(int64) == b.(int64) },
	DescribeOperation: func(input, output interface{}) string {
		return fmt.Sprintf("nonce(%s,%d)->%d", input.(nonceIn).ID, input.(nonceIn).Nonce, output.(nonceOut).R)
	},
}

func runC05Race(s *kernel.Sim) {
	driver := []string{"badger", "memory"}[s.Choose("driver", 3)/2]
	var inner store.Store
	if driver == "badger" {
		dir := seams.ScratchDir(s, "c05r")
		st, err := seams.OpenStore(s, "badger", dir, 1)
		if err != nil {
			panic(err)
		}
		inner = st
		seams.InstallTxnHook(s)
		s.SetYield("txn", 3)
	} else {
		inner, _ = seams.OpenStore(s, "memory", "", 0)
	}
	defer seams.CloseStore(s, inner)
	ys := seams.NewYieldStore(s, inner, driver)
	if s.Choose("sched", 3) != 0 {
		s.Sched = kernel.SchedPriority
	}
	s.StallPermille = []int{0, 25, 70}[s.Choose("stallrate", 3)]
	s.SetYield("store", 3)
	s.SetYield("storeret", 2)
	s.SetYield("op", 3)

	base := time.Now().UnixNano()
	ids := []string{"na", "nb"}[:1+s.Choose("nids", 2)]
	ntasks := 2 + s.Choose("ntasks", 3)
	type sub struct {
		in        nonceIn
		call, ret int
		out       nonceOut
		done      bool
	}
	var mu sync.Mutex
	var subs []*sub
	seq := 0
	for t := 0; t < ntasks; t++ {
		name := fmt.Sprintf("sub%d", t)
		nsub := 1 + s.Choose("nsub", 3)
		var mine []*sub
		for k := 0; k < nsub; k++ {
			// few distinct values so that duplicates and neighbours race
			sb := &sub{in: nonceIn{ID: ids[s.Choose("id", len(ids))], Nonce: base + int64(s.Choose("nonce", 3))}}
			mine = append(mine, sb)
			subs = append(subs, sb)
		}
		s.Go(name, func() {
			for _, sb := range mine {
				s.Gate(name)
				mu.Lock()
				seq++
				sb.call = seq
				mu.Unlock()
				err := ys.CheckAndSaveNonce(sb.in.ID, sb.in.Nonce)
				mu.Lock()
				seq++
				sb.ret = seq
				switch err {
				case nil:
					sb.out.R = 0
				case store.ErrInvalidNonce:
					sb.out.R = 1
				default:
					sb.out.R = 2
					if err == badger.ErrConflict {
						s.Probe("c05.badger_conflict")
					}
				}
				sb.done = true
				mu.Unlock()
				s.TaskLog(name, "nonce(%s,+%d) -> %v", sb.in.ID, sb.in.Nonce-base, err)
			}
		})
	}
	if r := s.Drive(kernel.DriveOpts{IdleCap: 1}); r != kernel.Done {
		if r != kernel.Stopped {
			s.Violate("liveness", "nonce submission never returns", "drive ended %s with submissions outstanding", r)
		}
		return
	}
	acc := map[nonceIn]int{}
	var hist []porcupine.Operation
	for i, sb := range subs {
		if sb.out.R == 0 {
			acc[sb.in]++
		}
		hist = append(hist, porcupine.Operation{ClientId: i, Input: sb.in, Call: int64(sb.call), Output: sb.out, Return: int64(sb.ret)})
	}
	for in, n := range acc {
		if n > 1 {
			s.Violate("at_most_once", "concurrent duplicates both accepted ("+driver+" driver)", "identity %s nonce +%d accepted %d times", in.ID, in.Nonce-base, n)
			return
		}
	}
	switch porcupine.CheckOperationsTimeout(nonceModel, hist, 10*time.Second) {
	case porcupine.Illegal:
		var b strings.Builder
		for _, sb := range subs {
			fmt.Fprintf(&b, " [%d,%d]nonce(%s,+%d)->%d", sb.call, sb.ret, sb.in.ID, sb.in.Nonce-base, sb.out.R)
		}
		s.Violate("linearizable", "accept/reject history is not that of a forward-only register ("+driver+" driver)", "history:%s", b.String())
	case porcupine.Unknown:
		s.Probe("porcupine.inconclusive")
	}
	s.ProbeN("c05.concurrent_submissions", len(subs))
}

// ------------------------------------------------------------------ C11

func runC11Hist(s *kernel.Sim) {
	dir := seams.ScratchDir(s, "c11")
	bad, err := seams.OpenStore(s, "badger", dir, 1)
	if err != nil {
		panic(err)
	}
	mem, _ := seams.OpenStore(s, "memory", "", 0)
	d := newStoreDiff(s, mem, bad)
	defer func() { seams.CloseStore(s, d.bad) }()
	N := store.NodeID("na")
	peers := []string{"nb", "nc", "nd"}[:2+s.Choose("npeers", 2)]
	faithful := peers[0] // checks in at least every < 120 s and is always reported
	mk := func(id string, host bool) store.Node {
		return store.Node{ID: store.NodeID(id), IsHost: host, Kind: "geth", LastSeen: time.Now(), URI: "enode://" + id + "@h:1"}
	}
	d.doSetNode(mk(string(N), false))
	for _, p := range peers {
		d.doSetNode(mk(p, true))
	}
	// a peer has to have checked in for its LastSeen to be set by the store
	sinceFaithful := time.Duration(0)
	cgaps := []time.Duration{time.Second, 59 * time.Second, 60 * time.Second, 120*time.Second - 1, 120 * time.Second, 120*time.Second + 1, 10 * time.Minute, 30 * time.Second}
	n := 10 + s.Choose("nops", 50)
	for i := 0; i < n && !s.Violated(); i++ {
		d.i = i + 10
		switch c := s.Choose("op", 12); {
		case c < 3: // N's keep-alive
			report := []string{faithful}
			for k := s.Choose("nrep", 5); k > 0; k-- {
				switch s.Choose("rep", 8) {
				case 0:
					report = append(report, "zz-unknown")
				case 1:
					report = append(report, string(N))
				case 2:
					report = append(report, report[0]) // duplicate
				default:
					report = append(report, peers[s.Choose("peer", len(peers))])
				}
			}
			ev := d.doUpdate(N, report, uint64(i))
			for _, e := range ev {
				if e == faithful {
					s.Violate("live_peer_never_invalid", "a peer that keeps checking in and is reported is evicted", "op %d: %q evicted although it checked in %s ago and is in the report", d.i, faithful, sinceFaithful)
				}
			}
			s.SigMix("N")
		case c < 6: // a peer's keep-alive
			p := peers[s.Choose("peer", len(peers))]
			d.doUpdate(store.NodeID(p), nil, uint64(i))
			if p == faithful {
				sinceFaithful = 0
			}
			s.SigMix("p")
		case c < 9: // time passes (never so much that the faithful peer misses its window)
			g := cgaps[s.Choose("gap", len(cgaps))]
			if sinceFaithful+g >= 120*time.Second {
				d.doUpdate(store.NodeID(faithful), nil, uint64(i))
				sinceFaithful = 0
				if g >= 120*time.Second {
					g = 120*time.Second - 1
				}
			}
			d.doAdvance(g)
			sinceFaithful += g
		case c < 10: // a peer (not the faithful one) reconnects
			p := peers[s.Choose("peer", len(peers))]
			if p != faithful {
				d.doSetNode(mk(p, true))
				s.SigMix("re")
			}
		case c < 11:
			d.doNodePeers(N)
		default: // N reconnects
			d.doSetNode(mk(string(N), false))
			s.SigMix("reN")
		}
	}
	if !s.Violated() {
		d.prefix = "final state: "
		d.compareAll()
	}
}

// ------------------------------------------------------------------ C13 restart / crash images

func runC13Restart(s *kernel.Sim) {
	dir := seams.ScratchDir(s, "c13")
	imgRoot := seams.ScratchDir(s, "c13img")
	tableMB := []int{1, 2}[s.Choose("tableMB", 2)]
	bad, err := seams.OpenStore(s, "badger", dir, tableMB)
	if err != nil {
		panic(err)
	}
	d := newStoreDiff(s, nil, bad)
	ro := &reopener{s: s, dir: dir, tableMB: tableMB, d: d}
	defer func() {
		if d.bad != nil {
			seams.CloseStore(s, d.bad)
		}
	}()
	seams.InstallTxnHook(s)
	s.SetYield("txn", 1)
	nops := 6 + s.Choose("nops", 20)
	imgN := 0
	checkImage := func(label string, before, after *models.RefStore) {
		imgN++
		img := fmt.Sprintf("%s/img%d", imgRoot, imgN)
		if err := seams.CopyDir(dir, img); err != nil {
			panic(err)
		}
		defer os.RemoveAll(img)
		prod := imgN%7 == 0
		mb := tableMB
		if prod {
			mb = 0
		}
		st, err := seams.OpenStore(s, "badger", img, mb)
		if err != nil {
			s.Violate("crash_atomic", "database does not open after a crash", "%s: crash image does not reopen: %v", label, err)
			return
		}
		defer seams.CloseStore(s, st)
		s.Fault("crash_image_reopened")
		db := storeVsModel(st, before)
		if db == "" {
			return
		}
		da := ""
		if after != nil {
			if da = storeVsModel(st, after); da == "" {
				s.Probe("c13.image_shows_after_state")
				return
			}
		}
		aspect := db
		if i := strings.Index(db, ":"); i > 0 {
			aspect = db[:i]
		}
		s.Violate("crash_atomic", "state after crash is neither before nor after the interrupted operation ("+aspect+")", "%s:\n vs before: %s\n vs after: %s", label, db, da)
	}
	// a kill while the kernel copies the write of a commit into the file (or a machine that dies) leaves a torn
	// record at the end of the value log: everything acknowledged is in front of it
	vlog := func(root string) (string, int64) {
		ents, _ := os.ReadDir(root)
		name := ""
		for _, e := range ents {
			if strings.HasSuffix(e.Name(), ".vlog") && e.Name() > name {
				name = e.Name()
			}
		}
		if name == "" {
			return "", 0
		}
		fi, err := os.Stat(root + "/" + name)
		if err != nil {
			return "", 0
		}
		return name, fi.Size()
	}
	checkTorn := func(label string, name string, from, to int64, before, after *models.RefStore) {
		if name == "" || to-from < 2 {
			return
		}
		imgN++
		img := fmt.Sprintf("%s/torn%d", imgRoot, imgN)
		if err := seams.CopyDir(dir, img); err != nil {
			panic(err)
		}
		defer os.RemoveAll(img)
		cut := from + 1 + int64(s.Choose("torncut", int(to-from-1)))
		if err := os.Truncate(img+"/"+name, cut); err != nil {
			panic(err)
		}
		s.Fault("torn_last_write_in_crash_image")
		mb := tableMB
		if imgN%2 == 0 {
			mb = 0 // exactly the options pool.go opens the database with
		}
		// (first in a process of its own: a failed badger.Open leaves goroutines behind that a simulated run cannot end with)
		if ok, msg := probeOpen(s, img, mb); !ok {
			s.Violate("crash_atomic", "database does not open after a crash that tore the last write", "%s: %d of the %d bytes of its write reached the file: the pool does not start again: %s", label, cut-from, to-from, msg)
			return
		}
		st, err := seams.OpenStore(s, "badger", img, mb)
		if err != nil {
			s.Violate("crash_atomic", "database does not open after a crash that tore the last write", "%s: %d of the %d bytes of its write reached the file: %v", label, cut-from, to-from, err)
			return
		}
		defer seams.CloseStore(s, st)
		if db := storeVsModel(st, before); db != "" {
			if da := storeVsModel(st, after); da != "" {
				s.Violate("crash_atomic", "state after a torn write is neither before nor after the interrupted operation", "%s (%d of %d bytes written):\n vs before: %s\n vs after: %s", label, cut-from, to-from, db, da)
			}
		}
	}
	// one generated operation at a time, run in a task so that the driver can
	// observe it parked at every in-transaction yield point
	opIdx := 0
	d.hook = nil
	for opIdx < nops && !s.Violated() && d.bad != nil {
		before := d.ref.Clone()
		vname, vfrom := vlog(dir)
		var desc string
		done := false
		i := opIdx
		t := s.Go(fmt.Sprintf("op%02d", i), func() {
			d.i = i
			c13Op(d, s)
			desc = d.desc
			done = true
		})
		point := 0
		for !s.Violated() {
			s.Settle()
			if t.Done() {
				break
			}
			if !s.IsParked(fmt.Sprintf("op%02d", i)) {
				s.Violate("liveness", "store operation blocks", "operation %d neither finished nor parked", i)
				break
			}
			point++
			// the model was already advanced by the op (ref first): d.ref is the after-state
			label := fmt.Sprintf("op %d (%s) interrupted at yield point %d", i, d.desc, point)
			checkImage(label, before, d.ref)
			// a concurrent reader sees only committed state: the live store equals the before-state
			if diff := storeVsModel(d.bad, before); diff != "" {
				aspect := diff
				if k := strings.Index(diff, ":"); k > 0 {
					aspect = diff[:k]
				}
				s.Violate("reader_isolation", "concurrent reader observes a half-applied operation ("+aspect+")", "%s: live store differs from the pre-operation state: %s", label, diff)
				break
			}
			s.Probe("c13.concurrent_reader_observations")
			// release the writer to its next yield point (no choice: enumeration)
			s.ReleaseFirst()
		}
		if s.Violated() {
			break
		}
		_ = done
		// after the operation: image must show exactly the after-state
		checkImage(fmt.Sprintf("after op %d (%s)", i, desc), d.ref, nil)
		if vn, vto := vlog(dir); vn == vname && s.Choose("torn", 3) == 0 {
			checkTorn(fmt.Sprintf("op %d (%s) torn", i, desc), vname, vfrom, vto, before, d.ref)
		}
		// close + reopen after every operation
		ro.reopen(i%5 == 4)
		if d.bad != nil {
			if diff := storeVsModel(d.bad, d.ref); diff != "" {
				aspect := diff
				if k := strings.Index(diff, ":"); k > 0 {
					aspect = diff[:k]
				}
				s.Violate("durable", "acknowledged change lost or altered by close + reopen ("+aspect+")", "after op %d (%s) and reopen: %s", i, desc, diff)
			}
		}
		s.SigMix(desc[:strings.IndexAny(desc+"(", "( ")])
		opIdx++
		if s.Choose("tick", 3) == 0 {
			time.Sleep(time.Duration(1+s.Choose("gap", 70)) * time.Second)
		}
	}
	// accepted nonces survive the restarts: replaying the latest one is refused
	s.SetYield("txn", 0)
	for _, id := range nodeIDs[:4] {
		if l := d.accepted[id]; len(l) > 0 && !s.Violated() && d.bad != nil {
			d.i = opIdx
			d.doNonce(id, l[len(l)-1])
		}
	}
	s.MarkNontrivial()
	s.ProbeN("c13.ops", opIdx)
	s.ProbeN("c13.crash_points", imgN)
}

// c13Op generates and applies one mutating-biased operation (badger only).
func c13Op(d *storeDiff, s *kernel.Sim) {
	node := func() store.NodeID { return store.NodeID(nodeIDs[s.TaskChoose("op", "node", 4)]) }
	acct := func() store.Account { return store.Account(accounts[s.TaskChoose("op", "acct", 2)]) }
	switch c := s.TaskChoose("op", "op", 14); {
	case c < 3:
		id := node()
		d.doSetNode(store.Node{ID: id, Kind: kinds[s.TaskChoose("op", "kind", 3)], IsHost: s.TaskChoose("op", "host", 2) == 1, LastSeen: time.Now(), URI: "enode://" + string(id) + "@h:1", BlockNumber: uint64(d.i)})
	case c < 6:
		id := node()
		var peers []string
		for k := s.TaskChoose("op", "npeers", 4); k > 0; k-- {
			peers = append(peers, string(node()))
		}
		d.doUpdate(id, peers, uint64(d.i))
	case c < 9:
		amt := big.NewInt(int64(s.TaskChoose("op", "amt", 2000)) - 500)
		if s.TaskChoose("op", "big", 5) == 0 {
			amt = new(big.Int).Add(big70, amt)
		}
		d.doAddNodeBalance(node(), amt)
	case c < 10:
		d.doAddAccountBalance(acct(), big.NewInt(int64(s.TaskChoose("op", "amt", 2000))-500))
	case c < 13:
		d.doAddAccountNode(acct(), node())
	default:
		id := string(node())
		d.doNonce(id, time.Now().UnixNano()+int64(s.TaskChoose("op", "nonce", 3)))
	}
}

// ------------------------------------------------------------------ C13 migration

func gobBytes(v interface{}) []byte {
	var buf bytes.Buffer
	if err := gob.NewEncoder(&buf).Encode(v); err != nil {
		panic(err)
	}
	return buf.Bytes()
}

// dumpDB is the logical content of a database: key -> value bytes (expiry ignored).
func dumpDB(dir string, skipPrefix string) (map[string]string, error) {
	db, err := badger.Open(seams.BadgerOptions(dir, 1))
	if err != nil {
		return nil, err
	}
	defer db.Close()
	out := map[string]string{}
	err = db.View(func(txn *badger.Txn) error {
		it := txn.NewIterator(badger.DefaultIteratorOptions)
		defer it.Close()
		for it.Rewind(); it.Valid(); it.Next() {
			k := string(it.Item().Key())
			if skipPrefix != "" && strings.HasPrefix(k, skipPrefix) {
				continue
			}
			v, err := it.Item().ValueCopy(nil)
			if err != nil {
				return err
			}
			out[k] = string(v)
		}
		return nil
	})
	return out, err
}

// probeOpen opens the database directory in a process of its own and reports whether badgerstore.Open succeeded: a
// failed Open leaves goroutines of the database behind that a simulated run cannot end with. The directory is changed
// as Open changes it (migration included): hand it a copy.
func probeOpen(s *kernel.Sim, dir string, mb int) (bool, string) {
	out, perr := exec.Command(os.Args[0], "-test.run", "^TestWorker$", "-mode", "openprobe", "-trace", dir, "-tier", fmt.Sprint(mb), "-elapsed", s.Now().String()).CombinedOutput()
	if perr != nil || !strings.Contains(string(out), "OPEN-") {
		panic(fmt.Sprintf("openprobe: %v: %s", perr, out))
	}
	if strings.Contains(string(out), "OPEN-OK") {
		return true, ""
	}
	msg := string(out)
	if i := strings.Index(msg, "OPEN-ERR: "); i >= 0 {
		msg = strings.SplitN(msg[i+10:], "\n", 2)[0]
	}
	return false, msg
}

func runC13MigrateBig(s *kernel.Sim) {
	dir := seams.ScratchDir(s, "c13b")
	version := s.Choose("version", 2)
	count := []int{20000, 70000, 120000}[s.Choose("identities", 3)]
	raw, err := badger.Open(seams.BadgerOptions(dir, 8))
	if err != nil {
		panic(err)
	}
	ref := models.NewRefStore(time.Now)
	id := store.NodeID(nodeIDs[0])
	n := store.Node{ID: id, Kind: kinds[0], IsHost: true, LastSeen: time.Now().Add(-time.Minute), URI: "enode://" + string(id) + "@1.2.3.4:30303"}
	bal := store.Balance{}
	bal.Credit.SetInt64(123456)
	ref.SetNode(n)
	ref.AddNodeBalance(id, big.NewInt(123456))
	if err := raw.Update(func(txn *badger.Txn) error {
		if err := txn.Set([]byte("vip:node:"+string(id)), gobBytes(&n)); err != nil {
			return err
		}
		if version > 0 {
			v := version
			if err := txn.Set([]byte("vip:version"), gobBytes(&v)); err != nil {
				return err
			}
		}
		return txn.Set([]byte("vip:trial:"+string(id)), gobBytes(&bal))
	}); err != nil {
		panic(err)
	}
	base := time.Now().UnixNano()
	for from := 0; from < count; from += 4000 {
		if err := raw.Update(func(txn *badger.Txn) error {
			for i := from; i < from+4000 && i < count; i++ {
				nonce := base - int64(i)
				if err := txn.Set([]byte("vip:nonce:"+hexID(100000+i)), gobBytes(&nonce)); err != nil {
					return err
				}
			}
			return nil
		}); err != nil {
			panic(err)
		}
	}
	raw.Close()
	s.Settle()
	s.ProbeN("c13.saved_nonces_in_old_database", count)
	// (asked of a copy, in a process of its own: see probeOpen)
	img := seams.ScratchDir(s, "c13bimg") + "/probe"
	if err := seams.CopyDir(dir, img); err != nil {
		panic(err)
	}
	ok, msg := probeOpen(s, img, 8)
	os.RemoveAll(img)
	if !ok {
		key := "supported old-format database does not open"
		if count > 60000 {
			key = "old-format database with more than 60 000 saved nonces does not open"
		}
		s.Violate("migrate", key, "format %d with %d saved nonces: Open failed: %s", version, count, msg)
		return
	}
	st, err := badgerstore.Open(seams.BadgerOptions(dir, 8))
	if err != nil {
		s.Violate("migrate", "migrated database does not reopen", "format %d with %d saved nonces: %v", version, count, err)
		return
	}
	defer seams.CloseStore(s, st)
	if diff := storeVsModel(st, ref); diff != "" {
		s.Violate("migrate", "migration changes nodes or balances (big)", "format %d with %d saved nonces: %s", version, count, diff)
	}
	for _, i := range []int{0, count / 2, count - 1} {
		if err := st.CheckAndSaveNonce(hexID(100000+i), base-int64(i)); err != store.ErrInvalidNonce {
			s.Violate("at_most_once", "a nonce accepted before the format upgrade is accepted again after it", "format %d with %d saved nonces: identity #%d: CheckAndSaveNonce returned %v, want ErrInvalidNonce", version, count, i, err)
		}
	}
	s.MarkNontrivial()
	s.SigMix(fmt.Sprintf("v%d n%d", version, count))
}

func runC13Migrate(s *kernel.Sim) {
	dir := seams.ScratchDir(s, "c13m")
	imgRoot := seams.ScratchDir(s, "c13mimg")
	version := s.Choose("version", 3) // on-disk format to synthesise
	ref := models.NewRefStore(time.Now)
	// --- write the old database key by key
	raw, err := badger.Open(seams.BadgerOptions(dir, 1))
	if err != nil {
		panic(err)
	}
	put := func(k string, v interface{}) {
		if err := raw.Update(func(txn *badger.Txn) error { return txn.Set([]byte(k), gobBytes(v)) }); err != nil {
			panic(err)
		}
	}
	nn := 1 + s.Choose("nnodes", 4)
	for i := 0; i < nn; i++ {
		id := store.NodeID(nodeIDs[i])
		n := store.Node{ID: id, Kind: kinds[s.Choose("kind", 3)], IsHost: s.Choose("host", 2) == 1, LastSeen: time.Now().Add(-time.Duration(s.Choose("age", 300)) * time.Second),
			URI: "enode://" + string(id) + "@1.2.3.4:30303", BlockNumber: uint64(s.Choose("block", 1000)), NodeVersion: "Geth/v1.9", VipnodeVersion: "v2", Payout: store.Account(accounts[s.Choose("acct", 3)])}
		put("vip:node:"+string(id), &n)
		ref.SetNode(n)
		switch s.Choose("bal", 3) {
		case 0:
			amt := amount(s)
			b := store.Balance{}
			b.Credit.Set(amt)
			put("vip:trial:"+string(id), &b)
			ref.AddNodeBalance(id, amt)
		case 1:
			acc := store.Account(accounts[s.Choose("acct", 2)])
			put("vip:account:"+string(id), &acc)
			ref.Links[id] = acc
			if _, ok := ref.Accounts[acc]; !ok {
				amt := amount(s)
				b := store.Balance{Account: acc}
				b.Credit.Set(amt)
				put("vip:balance:"+string(acc), &b)
				ref.AddAccountBalance(acc, amt)
			}
		}
		if s.Choose("peers", 2) == 1 {
			ps := map[store.NodeID]time.Time{}
			for k := 0; k < nn; k++ {
				if s.Choose("peer", 2) == 1 {
					ps[store.NodeID(nodeIDs[k])] = time.Now().Add(-time.Duration(s.Choose("age", 100)) * time.Second)
				}
			}
			put("vip:peers:"+string(id), &ps)
			ref.Peers[id] = ps
		}
	}
	// a pool that has seen a realistic number of identities: every id is a 128-digit enode id, every identity
	// has a node record, a trial balance, often a peer set, and a saved nonce - the tables lie next to each
	// other in key order and their keys have the same length
	type savedNonce struct {
		id    string
		nonce int64
	}
	var savedNonces []savedNonce
	crowd := []int{0, 0, 0, 101, 130, 260}[s.Choose("crowd", 6)]
	for i := 0; i < crowd; i++ {
		id := store.NodeID(hexID(5000 + i))
		n := store.Node{ID: id, Kind: kinds[i%3], IsHost: i%2 == 0, LastSeen: time.Now().Add(-time.Duration(i) * time.Second), URI: "enode://" + string(id) + "@1.2.3.4:30303"}
		put("vip:node:"+string(id), &n)
		ref.SetNode(n)
		amt := big.NewInt(int64(1000 + i))
		b := store.Balance{}
		b.Credit.Set(amt)
		put("vip:trial:"+string(id), &b)
		ref.AddNodeBalance(id, amt)
		if i%2 == 1 {
			ps := map[store.NodeID]time.Time{store.NodeID(hexID(5000 + i - 1)): time.Now().Add(-time.Second)}
			put("vip:peers:"+string(id), &ps)
			ref.Peers[id] = ps
		}
		nonce := time.Now().UnixNano() - int64(i)
		put("vip:nonce:"+string(id), &nonce)
		savedNonces = append(savedNonces, savedNonce{string(id), nonce})
	}
	nNonce := s.Choose("nnonce", 40)
	if s.Choose("manynonces", 3) == 0 {
		// more keys than the iterator prefetches at once (badger recycles its item buffers)
		// (the last two: more than one transaction of this database holds - its tables are 1 MB)
		nNonce = []int{99, 100, 101, 150, 257, 400, 1000, 3000, 7000}[s.Choose("nnonce.big", 9)]
	}
	if nNonce > 1000 {
		// written 250 at a time; some of them are too old to be kept
		for from := 0; from < nNonce; from += 250 {
			if err := raw.Update(func(txn *badger.Txn) error {
				for i := from; i < from+250 && i < nNonce; i++ {
					nonce := time.Now().UnixNano() - int64(i)
					if i%7 == 3 {
						nonce -= int64(2 * store.ExpireNonce)
					} else {
						savedNonces = append(savedNonces, savedNonce{hexID(20000 + i), nonce})
					}
					if err := txn.Set([]byte("vip:nonce:"+hexID(20000+i)), gobBytes(&nonce)); err != nil {
						return err
					}
				}
				return nil
			}); err != nil {
				panic(err)
			}
		}
		nNonce = 0
	}
	for i := 0; i < nNonce; i++ {
		nonce := time.Now().UnixNano() - int64(i)
		id := strings.Repeat("a", 1+s.Choose("idlen", 130)) + fmt.Sprint(i)
		put("vip:nonce:"+id, &nonce)
		savedNonces = append(savedNonces, savedNonce{id, nonce})
	}
	if version > 0 {
		v := version
		put("vip:version", &v)
	}
	raw.Close()
	s.Settle()
	fullBefore, _ := dumpDB(dir, "")
	beforeDump, err := dumpDB(dir, "vip:nonce:")
	if err != nil {
		panic(err)
	}
	delete(beforeDump, "vip:version")

	// --- does it open at all (asked of a copy, in a process of its own: see probeOpen)
	{
		img := imgRoot + "/probe"
		if err := seams.CopyDir(dir, img); err != nil {
			panic(err)
		}
		ok, msg := probeOpen(s, img, 1)
		os.RemoveAll(img)
		if !ok {
			s.Violate("migrate", "supported old-format database does not open", "format %d (%d node records, %d saved nonces): Open failed: %s", version, nn+crowd, len(savedNonces), msg)
			return
		}
	}
	// --- open through the driver, with a crash image at the migration's yield point
	seams.InstallTxnHook(s)
	s.SetYield("txn", 1)
	var st store.Store
	var openErr error
	t := s.Go("open", func() {
		st, openErr = badgerstore.Open(seams.BadgerOptions(dir, 1))
	})
	imgs := 0
	for {
		s.Settle()
		if t.Done() {
			break
		}
		if !s.IsParked("open") {
			s.Violate("liveness", "Open blocks", "Open neither finished nor parked")
			return
		}
		// crash during the migration: the image must open and migrate, losing nothing
		at := s.ParkedAt("open")
		if imgs >= 60 {
			// (a migration of this size needs a handful of transactions; one that is still at it is left to run on its
			// own - if it never ends the worker's watchdog reports the loop)
			s.SetYield("txn", 0)
			s.ReleaseFirst()
			continue
		}
		imgs++
		img := fmt.Sprintf("%s/m%d", imgRoot, imgs)
		seams.CopyDir(dir, img)
		s.SetYield("txn", 0)
		img2 := img + "p"
		seams.CopyDir(img, img2)
		ok, msg := probeOpen(s, img2, 1)
		os.RemoveAll(img2)
		if !ok {
			os.RemoveAll(img)
			s.Violate("migrate_crash", "database does not open after a crash during migration", "image %d: %s", imgs, msg)
			s.SetYield("txn", 1)
			s.ReleaseFirst()
			continue
		}
		st2, err := badgerstore.Open(seams.BadgerOptions(img, 1))
		if err != nil {
			panic(err)
		}
		if diff := storeVsModel(st2, ref); diff != "" {
			s.Violate("migrate_crash", "crash during migration changes nodes or balances", "image %d: %s", imgs, diff)
		}
		if strings.Contains(at, "Migrate.again") {
			s.Probe("c13.crash_image_between_two_transactions_of_a_migration")
		}
		if len(savedNonces) > 0 {
			k := s.Choose("imgnonce", len(savedNonces))
			if err := st2.CheckAndSaveNonce(savedNonces[k].id, savedNonces[k].nonce); err != store.ErrInvalidNonce {
				s.Violate("at_most_once", "a nonce accepted before the format upgrade is accepted again after a crash during it", "format %d, image %d (taken at %s): identity %s nonce %d: CheckAndSaveNonce returned %v, want ErrInvalidNonce", version, imgs, at, short10(savedNonces[k].id), savedNonces[k].nonce, err)
			}
		}
		seams.CloseStore(s, st2)
		os.RemoveAll(img)
		s.SetYield("txn", 1)
		s.Fault("crash_image_during_migration")
		s.ReleaseFirst()
	}
	s.SetYield("txn", 0)
	if openErr != nil {
		s.Violate("migrate", "supported old-format database does not open", "format %d: Open failed: %v", version, openErr)
		return
	}
	if diff := storeVsModel(st, ref); diff != "" {
		aspect := diff
		if k := strings.Index(diff, ":"); k > 0 {
			aspect = diff[:k]
		}
		s.Violate("migrate", "migration changes nodes or balances ("+aspect+")", "format %d -> current: %s", version, diff)
	}
	// accepted nonces are part of what is read back: a request honoured before the upgrade (its nonce is still inside the
	// freshness window) must not be honoured again after it
	if len(savedNonces) > 0 {
		k := s.Choose("replaynonce", len(savedNonces))
		if err := st.CheckAndSaveNonce(savedNonces[k].id, savedNonces[k].nonce); err != store.ErrInvalidNonce {
			s.Violate("at_most_once", "a nonce accepted before the format upgrade is accepted again after it", "format %d -> current: identity %s nonce %d (saved %s before the upgrade): CheckAndSaveNonce returned %v, want ErrInvalidNonce", version, short10(savedNonces[k].id), savedNonces[k].nonce, time.Since(time.Unix(0, savedNonces[k].nonce)), err)
		}
	}
	seams.CloseStore(s, st)
	after1, err := dumpDB(dir, "vip:nonce:")
	if err != nil {
		panic(err)
	}
	var cur int
	if v, ok := after1["vip:version"]; ok {
		gob.NewDecoder(strings.NewReader(v)).Decode(&cur)
	}
	if cur != 2 {
		s.Violate("migrate", "database not at the current format after Open", "format %d opened, version key now %d", version, cur)
	}
	delete(after1, "vip:version")
	if !sameMap(beforeDump, after1) {
		s.Violate("migrate", "migration rewrites non-nonce keys", "format %d: keys/values differ after migration: before %d keys, after %d", version, len(beforeDump), len(after1))
	}
	// second open of a current database changes nothing (nonce keys included)
	full1, _ := dumpDB(dir, "")
	if version == 2 && !sameMap(fullBefore, full1) {
		s.Violate("migrate", "opening a current database changes it", "before %d keys, after %d keys", len(fullBefore), len(full1))
	}
	st3, err := badgerstore.Open(seams.BadgerOptions(dir, 1))
	if err != nil {
		s.Violate("migrate", "current database does not reopen", "%v", err)
		return
	}
	seams.CloseStore(s, st3)
	full2, _ := dumpDB(dir, "")
	if !sameMap(full1, full2) {
		s.Violate("migrate", "reopening a current database changes it", "before %d keys, after %d keys", len(full1), len(full2))
	}
	s.MarkNontrivial()
	s.SigMix(fmt.Sprintf("v%d n%d nonce%d", version, nn, nNonce))
	s.ProbeN("c13.migrations", 1)
}

func sameMap(a, b map[string]string) bool {
	if len(a) != len(b) {
		return false
	}
	for k, v := range a {
		if w, ok := b[k]; !ok || w != v {
			return false
		}
	}
	return true
}

// ------------------------------------------------------------------ C11 concurrent keep-alives

func init() {
	Register(&Scenario{
		Name: "c11_peers_conc", Property: "C11", MaxSteps: 4000, Quick: 500, Thorough: 40000,
		Doc:  "a node's keep-alive racing check-ins and reconnects of its (partly stale) peers and a reader, interleaved before/after the store call and inside the badger transaction (hook H1: real conflicts and retries); every returned eviction list, the reader's view and the final tracked set must be those of some one-at-a-time order of the same operations that respects their real-time order (all permutations are tried against the reference model)",
		Real: []string{"pool/store/memory", "pool/store/badger (optimistic transactions, conflict retry)"}, Stub: []string{"callers (harness tasks)"},
		Run: runC11Conc,
	})
}

type peerOp struct {
	kind      string // update | setnode | read
	node      string
	peers     []string
	call, ret int
	out       []string
	err       error
}

func runC11Conc(s *kernel.Sim) {
	driver := []string{"badger", "badger", "memory"}[s.Choose("driver", 3)]
	var inner store.Store
	if driver == "badger" {
		dir := seams.ScratchDir(s, "c11c")
		st, err := seams.OpenStore(s, "badger", dir, 1)
		if err != nil {
			panic(err)
		}
		inner = st
		seams.InstallTxnHook(s)
	} else {
		inner, _ = seams.OpenStore(s, "memory", "", 0)
	}
	defer seams.CloseStore(s, inner)
	ys := seams.NewYieldStore(s, inner, driver)
	N := "na"
	peers := []string{"nb", "nc", "nd"}[:2+s.Choose("npeers", 2)]
	t0 := time.Now()
	ref := models.NewRefStore(func() time.Time { return t0 })
	mk := func(id string, seen time.Time) store.Node {
		return store.Node{ID: store.NodeID(id), IsHost: id != N, Kind: "geth", LastSeen: seen, URI: "enode://" + id + "@h:1"}
	}
	// --- history: the peers registered a while ago (some beyond the window), N tracks some of them
	ages := []time.Duration{0, 30 * time.Second, 119 * time.Second, 121 * time.Second, 10 * time.Minute}
	inner.SetNode(mk(N, t0))
	ref.SetNode(mk(N, t0))
	for _, p := range peers {
		seen := t0.Add(-ages[s.Choose("age", len(ages))])
		inner.SetNode(mk(p, seen))
		ref.SetNode(mk(p, seen))
	}
	// N's earlier keep-alive (at t0 - 1 min in both worlds): stamps are the peers' LastSeen at that time
	var first []string
	for _, p := range peers {
		if s.Choose("tracked", 3) != 0 {
			first = append(first, p)
		}
	}
	time.Sleep(time.Microsecond)
	t0 = time.Now()
	if _, err := inner.UpdateNodePeers(store.NodeID(N), first, 1); err != nil {
		panic(err)
	}
	ref.UpdateNodePeers(store.NodeID(N), first, 1)
	// adopt the stamp the driver wrote for N (its own clock read)
	if n, err := inner.GetNode(store.NodeID(N)); err == nil {
		m := ref.Nodes[store.NodeID(N)]
		m.LastSeen = n.LastSeen
		ref.Nodes[store.NodeID(N)] = m
	}
	// some time passes: tracked peers may now be beyond the window
	time.Sleep([]time.Duration{time.Second, 61 * time.Second, 100 * time.Second, 125 * time.Second}[s.Choose("gap", 4)])
	t0 = time.Now()
	base := ref.Clone()

	// --- the race
	if s.Choose("sched", 3) != 0 {
		s.Sched = kernel.SchedPriority
	}
	s.StallPermille = []int{0, 25, 70}[s.Choose("stallrate", 3)]
	s.SetYield("store", 3)
	s.SetYield("storeret", 2)
	if driver == "badger" {
		s.SetYield("txn", 3)
	}
	s.SetYield("op", 3)
	var ops []*peerOp
	nops := 2 + s.Choose("nops", 3)
	ops = append(ops, &peerOp{kind: "update", node: N})
	for len(ops) < nops {
		switch s.Choose("kind", 6) {
		case 0:
			ops = append(ops, &peerOp{kind: "update", node: N})
		case 1, 2, 3:
			ops = append(ops, &peerOp{kind: "update", node: peers[s.Choose("peer", len(peers))]})
		case 4:
			ops = append(ops, &peerOp{kind: "setnode", node: peers[s.Choose("peer", len(peers))]})
		default:
			ops = append(ops, &peerOp{kind: "read", node: N})
		}
	}
	for _, o := range ops {
		if o.kind == "update" && o.node == N {
			for _, p := range peers {
				if s.Choose("report", 3) != 0 {
					o.peers = append(o.peers, p)
				}
			}
		}
	}
	var mu sync.Mutex
	seq := 0
	for i, o := range ops {
		o := o
		name := fmt.Sprintf("op%d", i)
		s.Go(name, func() {
			s.Gate(name)
			mu.Lock()
			seq++
			o.call = seq
			mu.Unlock()
			switch o.kind {
			case "update":
				var l []store.NodeID
				l, o.err = ys.UpdateNodePeers(store.NodeID(o.node), o.peers, 2)
				for _, x := range l {
					o.out = append(o.out, string(x))
				}
				sort.Strings(o.out)
			case "setnode":
				o.err = ys.SetNode(mk(o.node, time.Now()))
			case "read":
				var l []store.Node
				l, o.err = ys.NodePeers(store.NodeID(o.node))
				o.out = idsOfNodes(l)
			}
			mu.Lock()
			seq++
			o.ret = seq
			mu.Unlock()
			s.TaskLog(name, "%s(%s %v) -> %v err=%v", o.kind, o.node, o.peers, o.out, o.err)
		})
	}
	if r := s.Drive(kernel.DriveOpts{IdleCap: 1}); r != kernel.Done {
		if r != kernel.Stopped {
			s.Violate("liveness", "store operation never returns", "drive ended %s", r)
		}
		return
	}
	for _, o := range ops {
		if o.err != nil {
			s.Violate("serial_order", "a keep-alive fails under concurrency ("+driver+" driver)", "%s(%s): %v", o.kind, o.node, o.err)
			return
		}
	}
	final, _ := inner.NodePeers(store.NodeID(N))
	finalIDs := idsOfNodes(final)
	// --- is there a serial order (respecting real-time order) that explains every output?
	n := len(ops)
	perm := make([]int, 0, n)
	used := make([]bool, n)
	var try func() bool
	try = func() bool {
		if len(perm) == n {
			m := base.Clone()
			for _, i := range perm {
				o := ops[i]
				switch o.kind {
				case "update":
					in, bnd, _ := m.UpdateNodePeers(store.NodeID(o.node), o.peers, 2)
					if len(bnd) > 0 {
						return true // exact boundary: don't-care
					}
					if !sameStrs(idsOf(in), o.out) {
						return false
					}
				case "setnode":
					m.SetNode(mk(o.node, t0))
				case "read":
					l, _ := m.NodePeers(store.NodeID(o.node))
					if !sameStrs(idsOf(l), o.out) {
						return false
					}
				}
			}
			l, _ := m.NodePeers(store.NodeID(N))
			return sameStrs(idsOf(l), finalIDs)
		}
		for i := 0; i < n; i++ {
			if used[i] {
				continue
			}
			ok := true
			for j := 0; j < n; j++ {
				if !used[j] && j != i && ops[j].ret < ops[i].call {
					ok = false // j finished before i started, so j must come first
				}
			}
			if !ok {
				continue
			}
			used[i] = true
			perm = append(perm, i)
			if try() {
				return true
			}
			perm = perm[:len(perm)-1]
			used[i] = false
		}
		return false
	}
	if !try() {
		var b strings.Builder
		for i, o := range ops {
			fmt.Fprintf(&b, " op%d[%d,%d] %s(%s %v)->%v;", i, o.call, o.ret, o.kind, o.node, o.peers, o.out)
		}
		key := "results of concurrent keep-alives match no one-at-a-time order"
		for _, o := range ops {
			for i := 1; i < len(o.out); i++ {
				if o.kind == "update" && o.out[i] == o.out[i-1] {
					key = "a peer is declared invalid twice in one reply"
				}
			}
			if o.kind == "update" && o.node == N {
				for _, x := range o.out {
					for _, f := range finalIDs {
						if x == f && len(ops) == 2 {
							key = "a peer is declared invalid and kept in the active set"
						}
					}
				}
			}
		}
		s.Violate("serial_order", key+" ("+driver+" driver)", "tracked before: %v; ops:%s final tracked set %v", idsOf(func() []store.NodeID { l, _ := base.NodePeers(store.NodeID(N)); return l }()), b.String(), finalIDs)
	}
	s.ProbeN("c11.concurrent_ops", n)
}

// ------------------------------------------------------------------ C05 the end of the freshness window

func init() {
	Register(&Scenario{
		Name: "c05_window_edge", Property: "C05", MaxSteps: 4000, Quick: 300, Thorough: 20000,
		Doc:  "a request is honoured; just before its nonce leaves the 15-minute freshness window the captured request (or one with a lower nonce that is still fresh) is submitted again and the clock passes the end of the window while that submission is inside the store (between its freshness test and its lookup: yield point at the start of the badger transaction): it must be refused - as a duplicate while the saved nonce lives, as too old afterwards",
		Real: []string{"pool/store/badger CheckAndSaveNonce (TTL, expiry at whole seconds)", "pool/store/memory CheckAndSaveNonce"}, Stub: []string{"none"},
		Run: runC05WindowEdge,
	})
}

func runC05WindowEdge(s *kernel.Sim) {
	driver := []string{"badger", "badger", "memory"}[s.Choose("driver", 3)]
	var inner store.Store
	if driver == "badger" {
		st, err := seams.OpenStore(s, "badger", seams.ScratchDir(s, "c05w"), 1)
		if err != nil {
			panic(err)
		}
		inner = st
		seams.InstallTxnHook(s)
	} else {
		inner, _ = seams.OpenStore(s, "memory", "", 0)
	}
	defer seams.CloseStore(s, inner)
	id := "na"
	// the honoured request: its nonce is the client's clock, a little behind or ahead of the pool's
	off := []time.Duration{0, -3 * time.Second, 2 * time.Second, 700 * time.Millisecond}[s.Choose("skew", 4)]
	n := time.Now().Add(off).UnixNano()
	if err := inner.CheckAndSaveNonce(id, n); err != nil {
		s.Violate("contract", "a fresh nonce is refused", "CheckAndSaveNonce(%s, now%+v): %v", id, off, err)
		return
	}
	// what is submitted again: the captured request itself, or the owner's older request that is still fresh
	lower := int64([]int{0, 0, 1, 1000000000}[s.Choose("lower", 4)])
	replay := n - lower
	// until just before the replayed nonce turns stale
	left := []time.Duration{1, time.Millisecond, 300 * time.Millisecond, 999 * time.Millisecond, 2 * time.Second}[s.Choose("left", 5)]
	stale := time.Unix(0, replay).Add(store.ExpireNonce)
	if d := time.Until(stale) - left; d > 0 {
		time.Sleep(d)
	}
	s.SetYield("txn", 2)
	var err error
	done := false
	s.Go("replay", func() {
		err = inner.CheckAndSaveNonce(id, replay)
		done = true
	})
	pass := []time.Duration{0, 500 * time.Millisecond, time.Second, 1500 * time.Millisecond, 3 * time.Second}[s.Choose("pass", 5)]
	for i := 0; i < 20 && !done; i++ {
		s.Settle()
		if done {
			break
		}
		if s.IsParked("replay") {
			if i == 0 && pass > 0 {
				// the submission is inside the store; time goes on (other nodes' commits, a busy disk)
				time.Sleep(pass)
				s.Fault("clock_passes_the_end_of_the_freshness_window_inside_the_nonce_check")
			}
			s.ReleaseFirst()
		}
	}
	s.Settle()
	s.SetYield("txn", 0)
	if !done {
		s.Violate("liveness", "nonce submission never returns", "replay still running")
		return
	}
	if err != store.ErrInvalidNonce {
		what := "the captured request"
		if lower > 0 {
			what = fmt.Sprintf("a request with a nonce %dns lower", lower)
		}
		s.Violate("at_most_once", "a replay at the end of the freshness window is accepted ("+driver+" driver)", "nonce honoured at skew %v; %s submitted %v before it turns stale, %v pass inside the store: CheckAndSaveNonce returned %v, want ErrInvalidNonce", off, what, left, pass, err)
	}
	s.MarkNontrivial()
	s.SigMix(fmt.Sprintf("%s %v %d %v %v", driver, off, lower, left, pass))
}
