// Package scen holds the scenarios: one workload + oracle + fault space per
// property (some properties have several).
package scen

import (
	"sort"

	"verif/sim/kernel"
)

// Scenario is a named simulated world with its oracles.
type Scenario struct {
	Name     string
	Property string
	Doc      string
	MaxSteps int
	// Quick / Thorough are the numbers of runs per tier.
	Quick    int
	Thorough int
	// RaceOnly: run in the -race build only (all of the scenario's runs).
	RaceOnly bool
	// Race: also run (a tenth of the runs) in a -race build with masked hand-offs.
	Race bool
	// Level is the evidence level this scenario supports (exploration unless set).
	Level string
	// Real / Stub name the components that ran as real code / as a stub.
	Real []string
	Stub []string
	Run  func(s *kernel.Sim)
}

var all = map[string]*Scenario{}

func Register(sc *Scenario) {
	if sc.Quick == 0 {
		sc.Quick = 1000
	}
	if sc.Thorough == 0 {
		sc.Thorough = 40 * sc.Quick
	}
	if sc.Level == "" {
		sc.Level = "exploration"
	}
	if _, dup := all[sc.Name]; dup {
		panic("duplicate scenario " + sc.Name)
	}
	all[sc.Name] = sc
}

func Get(name string) *Scenario { return all[name] }

func ForProperty(p string) []*Scenario {
	var r []*Scenario
	for _, sc := range all {
		if sc.Property == p {
			r = append(r, sc)
		}
	}
	sort.Slice(r, func(i, j int) bool { return r[i].Name < r[j].Name })
	return r
}

func Names() []string {
	var r []string
	for n := range all {
		r = append(r, n)
	}
	sort.Strings(r)
	return r
}
