package scen

import (
	"context"
	"errors"
	"fmt"
	"net"
	"net/netip"
	"sort"
	"strings"
	"sync"
	"time"

	"github.com/vipnode/vipnode/v2/agent"
	"github.com/vipnode/vipnode/v2/ethnode"
	"github.com/vipnode/vipnode/v2/jsonrpc2"
	"github.com/vipnode/vipnode/v2/pool"
	"verif/sim/kernel"
	"verif/sim/seams"
)

var agentReal = []string{"agent.Agent (Start / UpdatePeers / AddPeers / serveUpdates / Stop / Wait)", "ethnode.ParseNodeURI, PeerInfo.EnodeID/EnodeURI"}
var agentStub = []string{"Ethereum node (SimEthNode: recording, latency, injectable RPC errors)", "pool (SimPool: scripted replies and errors)"}

func init() {
	Register(&Scenario{
		Name: "c18_agent_rounds", Property: "C18", MaxSteps: 8000, Quick: 1500, Thorough: 100000,
		Doc:  "real agent.Agent against a recording node and a scripted pool over 1-6 keep-alive rounds (real ticker on the simulated clock, and forced UpdatePeers): churning local peer sets, active lists as enode URIs with / without address, loopback / unspecified hosts and differing ports, invalid lists as ids or URIs (also for peers that are not local), strict mode on/off, targets 0-6, pool errors at update or at the peer request (no-hosts, other internal, transport), light and full, geth and parity; after every round the node calls must equal the reference reconciliation",
		Real: agentReal, Stub: agentStub,
		Run: runC18,
	})
	Register(&Scenario{
		Name: "c20_lifecycle", Property: "C20", MaxSteps: 8000, Quick: 1500, Thorough: 100000,
		Doc:  "real agent.Agent: sequences and interleavings of Start / Start-again / Stop / Wait / forced update from several caller tasks, pool failure at connect or at the k-th keep-alive, update intervals from 1 s to 10 min on the simulated clock; Start while running is refused, keep-alives per interval stay exactly one, Stop ends the loop and Wait returns, a failed Start leaves nothing running, the agent can be started again",
		Real: agentReal, Stub: agentStub,
		Run: runC20,
	})
}

type agentPeer struct {
	id        string
	localAddr string // what the node reports as remote address of this peer
	poolURI   string // how the pool lists it
}

func hexID(i int) string { return fmt.Sprintf("%0128x", 0xabc000+i) }

// hostOnly returns the comparable host of a host:port ("" when it cannot be compared: empty, loopback, unspecified).
func hostOnly(hp string) (host string, comparable bool) {
	h, _, err := net.SplitHostPort(hp)
	if err != nil {
		h = strings.Trim(hp, "[]")
	}
	if h == "" || h == "localhost" {
		return "", false
	}
	if ip := net.ParseIP(h); ip != nil && (ip.IsLoopback() || ip.IsUnspecified()) {
		return "", false
	}
	// the same address however it is spelled (case, zero compression, zone kept)
	if ad, err := netip.ParseAddr(h); err == nil {
		return ad.String(), true
	}
	return strings.ToLower(h), true
}

// respell writes the host of a host:port differently without changing the address it means (IPv6 literals only).
func respellHost(hp string, mode int) string {
	h, port, err := net.SplitHostPort(hp)
	if err != nil {
		return hp
	}
	ad, err := netip.ParseAddr(h)
	if err != nil || !ad.Is6() || ad.Zone() != "" {
		return hp
	}
	switch mode {
	case 0:
		return net.JoinHostPort(strings.ToUpper(ad.String()), port)
	default:
		return net.JoinHostPort(ad.StringExpanded(), port)
	}
}

func idOf(x string) string {
	if u, err := ethnode.ParseNodeURI(x); err == nil {
		return u.ID()
	}
	return x
}

func runC18(s *kernel.Sim) {
	node := &seams.SimEthNode{S: s, NodeKind: []ethnode.NodeKind{ethnode.Geth, ethnode.Parity, ethnode.Geth}[s.Choose("kind", 3)], FullNode: s.Choose("full", 2) == 1,
		EnodeURI: "enode://" + hexID(99) + "@[::]:30303", FailNext: map[string]int{}}
	sp := &seams.SimPool{S: s, FailNext: map[string]int{}, FailWith: map[string]error{}}
	strict := s.Choose("strict", 2) == 1
	target := s.Choose("target", 7)
	a := &agent.Agent{EthNode: node, NumHosts: target, StrictPeers: strict, UpdateInterval: time.Minute, Version: "sim"}
	s.SetYield("eth", 2)
	s.SetYield("pool", 2)
	s.IdleSteps = []time.Duration{time.Second, 10 * time.Second, 30 * time.Second}
	addrs := []string{"198.51.100.1:30303", "198.51.100.2:30303", "198.51.100.2:40404", "[2001:db8::5]:30303", "node.example.org:30303", "127.0.0.1:30303", "[::]:30303", "203.0.113.77:1", "[2001:db8::a:b]:30303", "[fe80::1%eth0]:30303"}
	universe := make([]agentPeer, 6)
	for i := range universe {
		la := addrs[s.Choose("laddr", len(addrs))]
		pa := la
		switch s.Choose("paddr", 7) {
		case 5, 6: // the same address, spelled the way the host wrote it when it registered
			pa = respellHost(la, s.Choose("respell", 2))
		case 0:
			pa = addrs[s.Choose("paddr2", len(addrs))] // possibly another host
		case 1:
			if h, _, err := net.SplitHostPort(la); err == nil { // same host, other port
				pa = net.JoinHostPort(h, "31313")
			}
		}
		universe[i] = agentPeer{id: hexID(i), localAddr: la, poolURI: "enode://" + hexID(i) + "@" + strings.Replace(pa, "%", "%25", 1)}
	}
	rounds := 1 + s.Choose("rounds", 6)
	type roundPlan struct {
		local      []int
		active     []string
		activeIdx  []int
		invalid    []string
		newHosts   []string
		updateFail bool
		peerFail   int // 0 none, 1 "no available" internal, 2 other internal, 3 transport-style error
		forced     bool
		nodeFail   string // "", RemoveTrustedPeer, DisconnectPeer: the node answers the k-th such call of the round with an error
		nodeFailK  int
	}
	plans := make([]roundPlan, rounds)
	for r := range plans {
		pl := &plans[r]
		for i := range universe {
			if s.Choose("local", 2) == 1 {
				pl.local = append(pl.local, i)
			}
			switch s.Choose("listed", 6) {
			case 0, 1:
				pl.active = append(pl.active, universe[i].poolURI)
				pl.activeIdx = append(pl.activeIdx, i)
			case 2:
				if s.Choose("invform", 2) == 0 {
					pl.invalid = append(pl.invalid, universe[i].id)
				} else {
					pl.invalid = append(pl.invalid, universe[i].poolURI)
				}
			}
		}
		if s.Choose("emptyactive", 8) == 0 {
			pl.active = append(pl.active, "") // a tracked peer that is not a host has no URI
		}
		for k := s.Choose("nnew", 4); k > 0; k-- {
			pl.newHosts = append(pl.newHosts, fmt.Sprintf("enode://%s@198.51.100.%d:30303", hexID(20+r*4+k), 50+k))
		}
		pl.updateFail = s.Choose("updatefail", 8) == 0
		pl.peerFail = []int{0, 0, 0, 0, 1, 2, 3}[s.Choose("peerfail", 7)]
		pl.forced = r > 0 && s.Choose("forced", 3) == 0
		if s.Choose("nodefail", 5) == 0 {
			pl.nodeFail = []string{"RemoveTrustedPeer", "DisconnectPeer", "ConnectPeer"}[s.Choose("nodefailwhat", 3)]
			pl.nodeFailK = s.Choose("nodefailk", 3)
		}
	}
	node.RecordFailed = true
	done := false
	var mu sync.Mutex
	s.Go("director", func() {
		defer func() { done = true }()
		for r, pl := range plans {
			if s.Violated() {
				return
			}
			// install this round's world
			node.Lock()
			node.Round = r
			node.PeerSet = nil
			for _, i := range pl.local {
				p := ethnode.PeerInfo{ID: universe[i].id, Name: "Geth/peer"}
				if i%2 == 1 { // the other shape: id is a hash, the enode field carries the key
					p.ID = "hash" + universe[i].id[:12]
					p.Enode = "enode://" + universe[i].id + "@" + universe[i].localAddr
				}
				p.Network.RemoteAddress = universe[i].localAddr
				node.PeerSet = append(node.PeerSet, p)
			}
			node.FailNext["RemoveTrustedPeer"], node.FailNext["DisconnectPeer"], node.FailNext["ConnectPeer"] = 0, 0, 0
			node.FailAfter = map[string]int{}
			if pl.nodeFail != "" {
				node.FailNext[pl.nodeFail] = 1
				node.FailAfter[pl.nodeFail] = pl.nodeFailK
			}
			node.Unlock()
			sp.Lock()
			sp.NextUpdate = pool.UpdateResponse{ActivePeers: pl.active, InvalidPeers: pl.invalid}
			sp.NextPeers = pl.newHosts
			sp.FailNext["Peer"], sp.FailNext["Update"] = 0, 0
			if pl.updateFail {
				sp.FailNext["Update"] = 1
			}
			switch pl.peerFail {
			case 1:
				sp.FailNext["Peer"], sp.FailWith["Peer"] = 1, seams.RPCError(jsonrpc2.ErrCodeInternal, "no available host nodes found after trying 3 nodes")
			case 2:
				sp.FailNext["Peer"], sp.FailWith["Peer"] = 1, seams.RPCError(jsonrpc2.ErrCodeInternal, "failed to call \"vipnode_whitelist\" on 1 hosts: boom")
			case 3:
				sp.FailNext["Peer"], sp.FailWith["Peer"] = 1, errors.New("connection reset")
			}
			sp.Unlock()
			n0, p0 := node.NumCalls(), sp.NumCalls()
			var err error
			how := "tick"
			switch {
			case r == 0:
				how = "start"
				err = a.Start(sp)
			case pl.forced:
				how = "forced"
				ctx, cancel := context.WithCancel(s.Ctx)
				err = a.UpdatePeers(ctx, sp)
				cancel()
			default:
				// the real ticker: one interval passes
				s.Sleep("director", time.Minute)
				// the round runs in the agent's own goroutine: wait until the pool has seen the update and everything is at rest
				for i := 0; i < 200 && (sp.NumCalls() == p0 || sp.Busy() || node.Busy()); i++ {
					s.Sleep("director", time.Millisecond)
				}
			}
			s.TaskLog("director", "round %d (%s): local=%v active=%v invalid=%d new=%d updateFail=%v peerFail=%d -> %v", r, how, pl.local, pl.activeIdx, len(pl.invalid), len(pl.newHosts), pl.updateFail, pl.peerFail, err)
			calls, pcalls := node.CallsSince(n0), sp.CallsSince(p0)
			mu.Lock()
			checkRound(s, r, how, strict, target, node, universe, pl.local, pl.active, pl.invalid, pl.newHosts, pl.updateFail, pl.peerFail, calls, pcalls, err)
			mu.Unlock()
			nodeFailed := false
			for _, c := range calls {
				nodeFailed = nodeFailed || c.Failed
			}
			if nodeFailed && err == nil && how != "tick" {
				s.Violate("reconcile", "an error of the node while dropping a peer is not reported", "round %d (%s): UpdatePeers returned nil", r, how)
			}
			if pl.updateFail || (pl.peerFail == 3 && target-len(pl.active) > 0) || nodeFailed {
				// the loop (or Start) ended with the error: no further rounds
				return
			}
		}
	})
	s.Drive(kernel.DriveOpts{Until: func() bool { return done }, IdleCap: 10 * time.Minute})
	// stop the loop so that the bubble can end
	stopAgent(s, a)
}

func stopAgent(s *kernel.Sim, a *agent.Agent) {
	// Stop blocks until a running loop takes the signal; if no loop runs it would block for ever, so do it in a task
	s.GoBG("stopper", func() { a.Stop() })
	s.AllowLeak = true
}

func checkRound(s *kernel.Sim, r int, how string, strict bool, target int, node *seams.SimEthNode, universe []agentPeer, local []int, active, invalid, newHosts []string, updateFail bool, peerFail int, calls []seams.NodeCall, pcalls []seams.PoolCall, err error) {
	got := map[string][]string{}
	for _, c := range calls {
		got[c.Method] = append(got[c.Method], c.Arg)
	}
	for _, l := range got {
		sort.Strings(l)
	}
	var peerCalls []seams.PoolCall
	for _, pc := range pcalls {
		if pc.Method == "Peer" {
			peerCalls = append(peerCalls, pc)
		}
	}
	where := fmt.Sprintf("round %d (%s)", r, how)
	if updateFail {
		if len(calls) > 0 || len(peerCalls) > 0 {
			s.Violate("failed_update", "a failed keep-alive still changed the node", "%s: pool update failed but the node saw %v and the pool %d peer requests", where, calls, len(peerCalls))
		}
		if err == nil && how != "tick" {
			s.Violate("failed_update", "a failed keep-alive is not reported", "%s: UpdatePeers returned nil", where)
		}
		return
	}
	// --- who must be dropped
	want := map[string]bool{}
	for _, x := range invalid {
		want[idOf(x)] = true
	}
	dontCare := map[string]bool{}
	if strict {
		listed := map[string]string{}
		for _, x := range active {
			u, e := ethnode.ParseNodeURI(x)
			if e != nil {
				continue
			}
			listed[u.ID()] = (*u).Host
		}
		for _, i := range local {
			p := universe[i]
			lh, lok := hostOnly(p.localAddr)
			ph, listedHere := listed[p.id]
			if !listedHere {
				want[p.id] = true
				continue
			}
			phh, pok := hostOnly(ph)
			if !lok || !pok {
				dontCare[p.id] = true // loopback / unspecified / empty addresses cannot be compared
				continue
			}
			if lh != phh {
				want[p.id] = true
			}
		}
	}
	for _, m := range []string{"RemoveTrustedPeer", "DisconnectPeer"} {
		have := map[string]bool{}
		for _, x := range got[m] {
			have[x] = true
		}
		for id := range want {
			if !have[id] && !dontCare[id] {
				key := "a peer the pool declared invalid is not dropped"
				if strict {
					isLocal := false
					for _, i := range local {
						if universe[i].id == id {
							isLocal = true
						}
					}
					declared := false
					for _, x := range invalid {
						if idOf(x) == id {
							declared = true
						}
					}
					switch {
					case declared && !isLocal:
						key = "strict mode: a pool-declared invalid peer that is not a local peer is not un-trusted"
					case declared:
						key = "strict mode: a pool-declared invalid peer is kept"
					default:
						key = "strict mode: a local peer the pool does not list under the same host is kept"
					}
				}
				s.Violate("reconcile", key, "%s: no %s(%s); wanted %v, node saw %s=%v (strict=%v)", where, m, short10(id), shortKeys(want), m, shortList(got[m]), strict)
				return
			}
		}
		for id := range have {
			if !want[id] && !dontCare[id] {
				s.Violate("reconcile", "a peer that is neither invalid nor (strict) unlisted is dropped", "%s: %s(%s) although it is not to be dropped; wanted %v (strict=%v)", where, m, short10(id), shortKeys(want), strict)
				return
			}
		}
	}
	// --- topping up
	short := target - len(active)
	if short > 0 {
		if len(peerCalls) != 1 {
			s.Violate("topup", "shortfall does not produce exactly one peer request", "%s: target %d, %d active: %d peer requests", where, target, len(active), len(peerCalls))
			return
		}
		pc := peerCalls[0]
		wantKind := ""
		if !node.FullNode {
			wantKind = node.NodeKind.String()
		}
		if pc.Peer.Num != short || pc.Peer.Kind != wantKind {
			s.Violate("topup", "peer request does not ask for exactly the shortfall of the node's kind", "%s: asked num=%d kind=%q, want num=%d kind=%q", where, pc.Peer.Num, pc.Peer.Kind, short, wantKind)
		}
		wantConn := []string{}
		if peerFail == 0 {
			wantConn = append(wantConn, newHosts...)
		}
		sort.Strings(wantConn)
		if !sameStrs(got["ConnectPeer"], wantConn) {
			s.Violate("topup", "ConnectPeer calls differ from the hosts the pool returned", "%s: connected %v, pool returned %v (peerFail=%d)", where, shortList(got["ConnectPeer"]), shortList(wantConn), peerFail)
		}
	} else {
		if len(peerCalls) != 0 || len(got["ConnectPeer"]) != 0 {
			s.Violate("topup", "peers requested or connected without a shortfall", "%s: target %d, %d active: %d peer requests, %d ConnectPeer", where, target, len(active), len(peerCalls), len(got["ConnectPeer"]))
		}
	}
	if len(got["AddTrustedPeer"]) != 0 {
		s.Violate("reconcile", "unexpected AddTrustedPeer during a keep-alive round", "%s: %v", where, shortList(got["AddTrustedPeer"]))
	}
}

func shortKeys(m map[string]bool) []string {
	var r []string
	for k := range m {
		r = append(r, short10(k))
	}
	sort.Strings(r)
	return r
}

func shortList(l []string) []string {
	r := make([]string, len(l))
	for i, x := range l {
		if len(x) > 40 {
			x = x[:14] + ".." + x[len(x)-18:]
		}
		r[i] = x
	}
	return r
}

// ------------------------------------------------------------------ C20

func runC20(s *kernel.Sim) {
	node := &seams.SimEthNode{S: s, NodeKind: ethnode.Geth, FullNode: s.Choose("full", 2) == 1, EnodeURI: "enode://" + hexID(99) + "@[::]:30303", FailNext: map[string]int{}}
	sp := &seams.SimPool{S: s, FailNext: map[string]int{}, FailWith: map[string]error{}}
	interval := []time.Duration{time.Second, time.Minute, 10 * time.Minute, 7 * time.Second}[s.Choose("interval", 4)]
	a := &agent.Agent{EthNode: node, NumHosts: 0, UpdateInterval: interval, Version: "sim"}
	s.SetYield("eth", 1)
	s.SetYield("pool", 2)
	s.SetYield("op", 2)
	s.IdleSteps = []time.Duration{interval / 4, interval, interval / 2}
	running := false
	done := false
	updates := func() int {
		n := 0
		for _, c := range sp.CallsSince(0) {
			if c.Method == "Update" && c.Err == nil {
				n++
			}
		}
		return n
	}
	settle := func() {
		for i := 0; i < 100 && (sp.Busy() || node.Busy()); i++ {
			s.Sleep("director", time.Microsecond)
		}
	}
	nops := 4 + s.Choose("nops", 14)
	waits := 0
	// results of loops that were stopped without anybody waiting: each is still delivered to one later Wait
	unwaited := 0
	drainWaits := func(i int) bool {
		for ; unwaited > 0; unwaited-- {
			got := make(chan error, 1)
			waits++
			s.GoBG(fmt.Sprintf("waiter%d", waits), func() { got <- a.Wait() })
			s.Sleep("director", time.Millisecond)
			select {
			case err := <-got:
				if err != nil {
					s.Violate("stop", "Wait returns an error after a clean Stop", "#%d: result of an earlier loop: %v", i, err)
					return false
				}
			default:
				s.Violate("stop", "Wait does not return the result of a loop that was stopped earlier", "#%d", i)
				return false
			}
		}
		return true
	}
	s.Go("director", func() {
		defer func() { done = true }()
		for i := 0; i < nops && !s.Violated(); i++ {
			switch op := s.TaskChoose("director", "op", 15); {
			case op == 14 && running: // a forced update that the pool never answers (its caller set no deadline)
				if !drainWaits(i) {
					return
				}
				sp.Lock()
				if sp.SilentNext == nil {
					sp.SilentNext = map[string]int{}
				}
				sp.SilentNext["Update"] = 1
				sp.Unlock()
				waits++
				s.GoBG(fmt.Sprintf("forcer%d", waits), func() { a.UpdatePeers(s.Ctx, sp) })
				// whatever bound the agent puts on one round, two minutes are beyond it
				s.Sleep("director", 2*time.Minute)
				settle()
				// is the way free for other rounds?  A second forced update (no deadline either) must get its turn;
				// judged only if it is not merely waiting to be scheduled at the node or the pool
				probe := make(chan error, 1)
				waits++
				s.GoBG(fmt.Sprintf("forcer%d", waits), func() { probe <- a.UpdatePeers(s.Ctx, sp) })
				s.Sleep("director", time.Millisecond)
				settle()
				var perr error
				returned := false
				select {
				case perr = <-probe:
					returned = true
				default:
				}
				s.TaskLog("director", "#%d forced update that is never answered; two minutes later a second one: returned=%v (%v)", i, returned, perr)
				if !returned && !sp.Busy() && !node.Busy() {
					s.Violate("forced_update", "a forced update that is never answered keeps every later update round from running", "#%d: two minutes after the pool failed to answer one forced update, another UpdatePeers is still waiting for its turn - and so is every tick of the keep-alive loop: the agent runs, sends nothing, and reports nothing", i)
					return
				}
				// (not returned and busy: starved by the schedule so far, nothing to judge)
			case op == 13 && running: // a forced update is still inside a slow pool when the next tick fires
				if !drainWaits(i) {
					return
				}
				hold := make(chan struct{})
				sp.Lock()
				sp.RefuseOverlap = true // what the pool does with a keep-alive of a node whose previous one it is still processing
				if sp.Hold == nil {
					sp.Hold = map[string]chan struct{}{}
				}
				sp.Hold["Update"] = hold
				sp.Unlock()
				forced := make(chan error, 1)
				waits++
				s.GoBG(fmt.Sprintf("forcer%d", waits), func() {
					ctx, cancel := context.WithCancel(s.Ctx)
					defer cancel()
					forced <- a.UpdatePeers(ctx, sp)
				})
				// (the pool takes between a third of an interval and a bit more than one: at least one tick fires meanwhile when it is more)
				held := interval/3 + time.Duration(s.TaskChoose("director", "holdthirds", 4))*interval/3
				s.Sleep("director", held)
				close(hold)
				s.Sleep("director", time.Millisecond)
				settle()
				var ferr error
				select {
				case ferr = <-forced:
				default:
					s.Violate("forced_update", "a forced update does not return", "#%d: the pool answered it", i)
					return
				}
				if ferr != nil && held >= 10*time.Second && strings.Contains(ferr.Error(), "deadline exceeded") {
					// the pool took longer than the agent waits for any keep-alive (the loop's own are given up after
					// ten seconds too): giving up is what keeps the token from being held for ever
					ferr = nil
				}
				if ferr != nil {
					s.Violate("forced_update", "a forced update of a running agent fails at a healthy pool", "#%d: UpdatePeers returned %v", i, ferr)
					return
				}
				s.Sleep("director", interval+interval/2)
				settle()
				sp.Lock()
				refused := sp.Refused
				sp.Unlock()
				// is the loop still there?  (asked in a way that does not depend on how fast anything is scheduled: a
				// running agent refuses to be started again)
				serr := a.Start(sp)
				s.TaskLog("director", "#%d forced update overlapping the tick: pool refused %d overlapping keep-alives so far; Start now -> %v", i, refused, serr)
				if serr != agent.ErrAlreadyStarted {
					s.Violate("forced_update", "a forced update that is still being answered when the next tick fires ends the keep-alive loop", "#%d: the pool is healthy (it refused %d keep-alives, all of them the agent's own, sent while its previous one was still being answered), nobody stopped the agent, but it is not running any more: Start returned %v instead of refusing", i, refused, serr)
					return
				}
			case op <= 2: // Start (fresh, again while running, or with the pool failing at connect)
				failConnect := !running && s.TaskChoose("director", "failconnect", 4) == 0
				if failConnect {
					sp.Lock()
					sp.FailNext["Connect"] = 1
					sp.Unlock()
				}
				u0 := updates()
				err := a.Start(sp)
				s.TaskLog("director", "#%d Start (running=%v failConnect=%v) -> %v", i, running, failConnect, err)
				switch {
				case running:
					if err != agent.ErrAlreadyStarted {
						s.Violate("start_twice", "Start while running is not refused", "#%d: second Start returned %v, want ErrAlreadyStarted", i, err)
						return
					}
					if updates() != u0 {
						s.Violate("start_twice", "refused Start still talked to the pool", "#%d: %d keep-alives sent by a refused Start", i, updates()-u0)
					}
				case failConnect:
					if err == nil {
						s.Violate("failed_start", "Start reports success although the pool refused the connect", "#%d", i)
						return
					}
					// nothing may be running: no keep-alive for the next intervals
					s.Sleep("director", 3*interval+interval/2)
					settle()
					if n := updates() - u0; n != 0 {
						s.Violate("failed_start", "a Start that failed at the pool leaves a loop running", "#%d: %d keep-alives after the failed Start", i, n)
						return
					}
				default:
					if err != nil {
						if err == agent.ErrAlreadyStarted {
							s.Violate("restart", "Start after Stop (or after a failed Start) is refused", "#%d: %v", i, err)
						} else {
							s.Violate("restart", "Start fails although node and pool are healthy", "#%d: %v", i, err)
						}
						return
					}
					if n := updates() - u0; n != 1 {
						s.Violate("cadence", "Start does not send exactly one initial keep-alive", "#%d: %d", i, n)
					}
					running = true
				}
			case op <= 5: // time passes: k intervals, exactly k keep-alives while running
				k := 1 + s.TaskChoose("director", "k", 4)
				u0 := updates()
				for j := 0; j < k; j++ {
					// one interval at a time, letting each round finish well inside
					// its interval (a round slower than the interval legitimately drops ticks)
					s.Sleep("director", interval)
					s.Sleep("director", time.Millisecond)
					settle()
				}
				n := updates() - u0
				s.TaskLog("director", "#%d advance %d intervals (running=%v): %d keep-alives", i, k, running, n)
				want := 0
				if running {
					want = k
				}
				if n != want {
					key := "keep-alives per interval differ from one"
					if n > want && running {
						key = "more than one keep-alive per interval (a second loop is running)"
					} else if !running {
						key = "keep-alives are sent although the agent is stopped"
					}
					s.Violate("cadence", key, "#%d: %d keep-alives in %d intervals of %s (running=%v)", i, n, k, interval, running)
					return
				}
			case op <= 7: // Stop + Wait
				if !running {
					continue
				}
				if !drainWaits(i) {
					return
				}
				waitDone := make(chan error, 1)
				waits++
				s.GoBG(fmt.Sprintf("waiter%d", waits), func() { waitDone <- a.Wait() })
				a.Stop()
				s.Sleep("director", time.Millisecond)
				settle()
				select {
				case err := <-waitDone:
					s.TaskLog("director", "#%d Stop; Wait -> %v", i, err)
					if err != nil {
						s.Violate("stop", "Wait returns an error after a clean Stop", "#%d: %v", i, err)
					}
				default:
					s.Violate("stop", "Wait does not return after Stop", "#%d: still blocked after Stop returned", i)
					return
				}
				running = false
				u0 := updates()
				s.Sleep("director", 2*interval+interval/2)
				settle()
				if n := updates() - u0; n != 0 {
					s.Violate("stop", "keep-alives continue after Stop", "#%d: %d keep-alives after Stop", i, n)
					return
				}
			case op == 12 && running: // the pool never answers the next keep-alive: the agent must remain stoppable
				if !drainWaits(i) {
					return
				}
				waitDone := make(chan error, 1)
				stopDone := make(chan struct{})
				waits++
				s.GoBG(fmt.Sprintf("waiter%d", waits), func() { waitDone <- a.Wait() })
				sp.Lock()
				if sp.SilentNext == nil {
					sp.SilentNext = map[string]int{}
				}
				sp.SilentNext["Update"] = 1
				sp.Unlock()
				s.Sleep("director", interval+interval/3) // the tick fires, the keep-alive is out and unanswered
				waits++
				s.GoBG(fmt.Sprintf("stopper%d", waits), func() { a.Stop(); close(stopDone) })
				// whatever bound the agent puts on a keep-alive, a minute is beyond it
				s.Sleep("director", time.Minute)
				settle()
				stopped := false
				select {
				case <-stopDone:
					stopped = true
				default:
				}
				var werr error
				waited := false
				select {
				case werr = <-waitDone:
					waited = true
				default:
				}
				s.TaskLog("director", "#%d unanswered keep-alive: Stop returned=%v, Wait returned=%v (%v)", i, stopped, waited, werr)
				if !waited {
					s.Violate("stop", "an unanswered keep-alive leaves an agent that cannot be stopped", "#%d: a minute after the pool failed to answer one keep-alive and Stop was called: Stop returned=%v, Wait returned=%v", i, stopped, waited)
					return
				}
				if !stopped {
					// the loop ended on its own (the keep-alive timed out) before it could take the stop signal:
					// that Stop stays pending by design and ends the next run at once - give it one
					sp.Lock()
					sp.SilentNext["Update"] = 0
					sp.Unlock()
					waits++
					w2 := make(chan error, 1)
					s.GoBG(fmt.Sprintf("waiter%d", waits), func() { w2 <- a.Wait() })
					if err := a.Start(sp); err != nil {
						s.Violate("restart", "Start after the loop ended on an unanswered keep-alive is refused", "#%d: %v", i, err)
						return
					}
					s.Sleep("director", time.Millisecond)
					settle()
					select {
					case <-stopDone:
					default:
						s.Violate("stop", "a pending Stop is never taken", "#%d", i)
						return
					}
					select {
					case <-w2:
					default:
						s.Violate("stop", "Wait does not return after Stop", "#%d: after the pending Stop ended the restarted loop", i)
						return
					}
				}
				running = false
				u0 := updates()
				s.Sleep("director", 2*interval+interval/2)
				settle()
				if n := updates() - u0; n != 0 {
					s.Violate("stop", "keep-alives continue after Stop", "#%d: %d keep-alives after Stop", i, n)
					return
				}
			case op == 11 && running: // Stop, and nobody waits for the loop's result: the agent must still be restartable
				a.Stop()
				s.Sleep("director", time.Millisecond)
				settle()
				s.TaskLog("director", "#%d Stop (no Wait)", i)
				running = false
				unwaited++
				u0 := updates()
				s.Sleep("director", 2*interval+interval/2)
				settle()
				if n := updates() - u0; n != 0 {
					s.Violate("stop", "keep-alives continue after Stop", "#%d: %d keep-alives after Stop", i, n)
					return
				}
			case op == 8 && running: // the pool fails the next keep-alive: the loop ends, Wait returns the error, a new Start works
				if !running {
					continue
				}
				if !drainWaits(i) {
					return
				}
				waitDone := make(chan error, 1)
				waits++
				s.GoBG(fmt.Sprintf("waiter%d", waits), func() { waitDone <- a.Wait() })
				sp.Lock()
				sp.FailNext["Update"] = 1
				sp.Unlock()
				s.Sleep("director", interval+interval/3)
				settle()
				select {
				case err := <-waitDone:
					s.TaskLog("director", "#%d keep-alive failed; Wait -> %v", i, err)
					if err == nil {
						s.Violate("stop", "Wait returns nil although the loop died of a pool error", "#%d", i)
					}
				default:
					s.Violate("stop", "Wait does not return when the loop ends with a pool error", "#%d", i)
					return
				}
				running = false
				u0 := updates()
				s.Sleep("director", 2*interval+interval/2)
				settle()
				if n := updates() - u0; n != 0 {
					s.Violate("stop", "keep-alives continue after the loop ended with an error", "#%d: %d", i, n)
					return
				}
			case op == 9 && !running: // two callers start the agent at the same time
				u0 := updates()
				c0 := 0
				for _, c := range sp.CallsSince(0) {
					if c.Method == "Connect" && c.Err == nil {
						c0++
					}
				}
				errs := make(chan error, 2)
				for k := 0; k < 2; k++ {
					waits++
					s.GoBG(fmt.Sprintf("starter%d", waits), func() { errs <- a.Start(sp) })
				}
				for i := 0; i < 200 && len(errs) < 2; i++ {
					s.Sleep("director", time.Millisecond)
				}
				settle()
				if len(errs) < 2 {
					s.Violate("start_twice", "concurrent Start calls do not return", "only %d of 2 returned", len(errs))
					return
				}
				e1, e2 := <-errs, <-errs
				s.TaskLog("director", "#%d two concurrent Starts -> %v / %v", i, e1, e2)
				ok, refused := 0, 0
				for _, e := range []error{e1, e2} {
					if e == nil {
						ok++
					} else if e == agent.ErrAlreadyStarted {
						refused++
					}
				}
				c1 := 0
				for _, c := range sp.CallsSince(0) {
					if c.Method == "Connect" && c.Err == nil {
						c1++
					}
				}
				if ok != 1 || refused != 1 {
					s.Violate("start_twice", "two overlapping Start calls are not resolved to one start and one refusal", "#%d: results %v / %v; registrations with the pool: %d; keep-alives: %d", i, e1, e2, c1-c0, updates()-u0)
					return
				}
				if c1-c0 != 1 || updates()-u0 != 1 {
					s.Violate("start_twice", "overlapping Start calls register or update more than once", "#%d: %d registrations, %d keep-alives", i, c1-c0, updates()-u0)
					return
				}
				running = true
			default: // forced update from the caller's task
				if !running {
					continue
				}
				ctx, cancel := context.WithCancel(s.Ctx)
				err := a.UpdatePeers(ctx, sp)
				cancel()
				s.TaskLog("director", "#%d forced UpdatePeers -> %v", i, err)
			}
		}
	})
	s.Drive(kernel.DriveOpts{Until: func() bool { return done }, IdleCap: 3 * time.Hour})
	if running {
		stopAgent(s, a)
	}
	s.AllowLeak = true
}
