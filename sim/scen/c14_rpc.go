package scen

import (
	"context"
	"errors"
	"fmt"
	"sort"
	"sync"

	"github.com/vipnode/vipnode/v2/jsonrpc2"
	"verif/sim/kernel"
	"verif/sim/seams"
)

// TokenSvc is the RPC service both ends of the C14 world expose.
type TokenSvc struct {
	s     *kernel.Sim
	side  string
	self  *jsonrpc2.Remote
	mu    sync.Mutex
	count map[string]int
	open  map[string]bool
}

// Echo returns "echo:"+token; with depth > 0 it first calls back over the
// connection the request arrived on.
func (t *TokenSvc) Echo(ctx context.Context, token string, depth int) (string, error) {
	t.mu.Lock()
	t.count[token]++
	n := t.count[token]
	t.open[token] = true
	t.mu.Unlock()
	defer func() {
		t.mu.Lock()
		delete(t.open, token)
		t.mu.Unlock()
	}()
	if n > 1 {
		t.s.Violate("handled_once", "handler ran twice", "side %s: request %q handled %d times", t.side, token, n)
	}
	svc, err := jsonrpc2.CtxService(ctx)
	if err != nil {
		t.s.Violate("ctx_service", "missing", "side %s: handler context has no service: %v", t.side, err)
		return "", err
	}
	if r, ok := svc.(*jsonrpc2.Remote); !ok || r != t.self {
		t.s.Violate("ctx_service", "wrong connection", "side %s: handler for %q got service %p, want the connection it arrived on %p", t.side, token, svc, t.self)
	}
	t.s.Yield("handler", t.side+" echo "+token)
	if depth > 0 {
		var got string
		sub := token + "/cb"
		if err := svc.Call(ctx, &got, "t_echo", sub, depth-1); err != nil {
			return "", fmt.Errorf("callback failed: %v", err)
		}
		if got != "echo:"+sub {
			t.s.Violate("own_reply", "nested call got another call's reply", "side %s: nested call %q returned %q", t.side, sub, got)
		}
		t.s.Probe("c14.nested_callback")
	}
	return "echo:" + token, nil
}

type rpcCall struct {
	name      string
	side      int
	token     string
	depth     int
	ctx       context.Context
	cancel    context.CancelFunc
	started   bool
	returned  bool
	cancelled bool
	err       error
	got       string
}

func init() {
	Register(&Scenario{
		Name: "c14_rpc", Property: "C14", MaxSteps: 6000, Quick: 6000, Thorough: 400000, Race: true,
		Doc:  "two jsonrpc2.Remote ends over one simulated connection, many concurrent callers per side, parked handlers, nested call-backs, reply-before-wait, cancellations",
		Real: []string{"jsonrpc2.Remote", "jsonrpc2.Server", "jsonrpc2.Client", "jsonrpc2 pending table"},
		Stub: []string{"connection (SimCodec, message level)"},
		Run:  func(s *kernel.Sim) { runC14(s, false) },
	})
	Register(&Scenario{
		Name: "c14_rpc_prodlimit", Property: "C14", MaxSteps: 12000, Quick: 300, Thorough: 20000,
		Doc:  "as c14_rpc with the pending-table limit the production server sets (50/10) and up to 80 concurrent callers on one side",
		Real: []string{"jsonrpc2.Remote", "jsonrpc2.Server", "jsonrpc2.Client", "jsonrpc2 pending table"},
		Stub: []string{"connection (SimCodec, message level)"},
		Run:  func(s *kernel.Sim) { runC14(s, true) },
	})
}

func runC14(s *kernel.Sim, prod bool) {
	s.AllowLeak = prod // the hang this scenario looks for leaves goroutines behind
	ca, cb := seams.Pipe(s, "A", "B", "10.0.0.1:1001", "10.0.0.2:1002")
	mk := func(side string, c *seams.Codec) (*jsonrpc2.Remote, *TokenSvc) {
		r := &jsonrpc2.Remote{Codec: c, Client: &jsonrpc2.Client{}, Server: &jsonrpc2.Server{}}
		svc := &TokenSvc{s: s, side: side, self: r, count: map[string]int{}, open: map[string]bool{}}
		if err := r.Server.Register("t_", svc); err != nil {
			panic(err)
		}
		return r, svc
	}
	ra, sa := mk("A", ca)
	rb, sb := mk("B", cb)
	if s.Choose("lazyclient", 3) == 0 {
		// a Remote may be built without a Client: Call creates one on first use (client.go does that)
		ra.Client, rb.Client = nil, nil
	}
	remotes := []*jsonrpc2.Remote{ra, rb}
	svcs := []*TokenSvc{sa, sb}

	// swarm configuration
	nA := 1 + s.Choose("callersA", 6)
	nB := s.Choose("callersB", 7)
	maxDepth := s.Choose("maxDepth", 4)
	if prod {
		ra.PendingLimit, ra.PendingDiscard = 50, 10
		rb.PendingLimit, rb.PendingDiscard = 50, 10
		nA = 40 + s.Choose("callersA", 41)
		nB = s.Choose("callersB", 4)
		maxDepth = s.Choose("maxDepth", 2)
	} else if s.Choose("limit", 3) == 2 {
		ra.PendingLimit, ra.PendingDiscard = 50, 10
		rb.PendingLimit, rb.PendingDiscard = 50, 10
	}
	if s.Choose("postwrite", 2) == 1 {
		s.SetYield("postwrite", 3)
	}
	if s.Choose("handlerpark", 3) != 0 {
		s.SetYield("handler", 3)
		if !prod && s.Choose("bursts", 2) == 1 {
			// messages queued behind one another may arrive together: the reading loop finds the next one
			// without a scheduling decision in between (handlers park on entry, so their order stays decided here)
			ca.SetBurst(3)
			cb.SetBurst(3)
		}
	}
	s.SetYield("op", 4)
	if s.Choose("atomicyield", 2) == 1 {
		// callers may be preempted right before an atomic operation (request id allocation)
		seams.InstallTxnHook(s)
		s.SetYield("atomic", 3)
	}
	if s.Choose("sched", 3) != 0 {
		s.Sched = kernel.SchedPriority
	}
	s.StallPermille = []int{0, 25, 70}[s.Choose("stallrate", 3)]
	cancelRate := []int{0, 0, 30, 120}[s.Choose("cancelRate", 4)]

	s.GoBG("serveA", func() { ra.Serve() })
	s.GoBG("serveB", func() { rb.Serve() })

	var calls []*rpcCall
	var mu sync.Mutex
	add := func(side, i int) {
		c := &rpcCall{name: fmt.Sprintf("call%c%02d", 'A'+side, i), side: side, token: fmt.Sprintf("%c%02d", 'a'+side, i)}
		if maxDepth > 0 {
			c.depth = s.Choose("depth", maxDepth+1)
		}
		c.ctx, c.cancel = context.WithCancel(s.Ctx)
		calls = append(calls, c)
	}
	for i := 0; i < nA; i++ {
		add(0, i)
	}
	for i := 0; i < nB; i++ {
		add(1, i)
	}
	for _, c := range calls {
		c := c
		s.Go(c.name, func() {
			s.Gate(c.name)
			mu.Lock()
			c.started = true
			mu.Unlock()
			var got string
			err := remotes[c.side].Call(c.ctx, &got, "t_echo", c.token, c.depth)
			mu.Lock()
			c.returned, c.err, c.got = true, err, got
			cancelled := c.cancelled
			mu.Unlock()
			s.TaskLog(c.name, "returned %q err=%v", got, err)
			if err == nil {
				if got != "echo:"+c.token {
					s.Violate("own_reply", "call got another call's reply", "%s sent token %q and got %q", c.name, c.token, got)
				}
				return
			}
			if cancelled && errors.Is(err, context.Canceled) {
				s.Probe("c14.cancelled_call_returned_ctx_err")
				return
			}
			s.Violate("own_reply", "call failed though its context is live", "%s (token %q): unexpected error %v (cancelled=%v)", c.name, c.token, err, cancelled)
		})
	}

	// fault source: cancel an in-flight call
	s.AddFaultSource(func() []kernel.Action {
		if cancelRate == 0 {
			return nil
		}
		var acts []kernel.Action
		mu.Lock()
		defer mu.Unlock()
		for _, c := range calls {
			c := c
			if c.started && !c.returned && !c.cancelled && !s.IsParked(c.name) {
				// (a caller parked by the simulator between its write and its wait is not
				// cancelled: if its reply is already there, Go's select picks at random)
				acts = append(acts, kernel.Action{Kind: "fault", ID: "cancel:" + c.name, Sig: "f:cancel", Weight: 1, Fault: "cancel_in_flight_call", Do: func() {
					mu.Lock()
					c.cancelled = true
					mu.Unlock()
					s.Event("cancel %s", c.name)
					c.cancel()
					s.Settle()
					mu.Lock()
					ret := c.returned
					mu.Unlock()
					if !ret {
						s.Violate("cancel_prompt", "cancelled call keeps blocking", "%s: context cancelled but Call did not return", c.name)
					}
				}})
				if len(acts)*1000 >= cancelRate*40 { // bound the share of fault actions
					break
				}
			}
		}
		return acts
	})

	res := s.Drive(kernel.DriveOpts{Faults: true, IdleCap: 1})
	if res == kernel.Stopped {
		return
	}
	if res == kernel.Done {
		res = s.Drive(kernel.DriveOpts{FIFO: true, Quiet: true, MaxSteps: 40 * (len(calls) + 2) * (maxDepth + 2), IdleCap: 1})
	} else {
		// faults stop; bounded liveness: everything still in flight must finish
		res = s.Drive(kernel.DriveOpts{FIFO: true, Quiet: true, MaxSteps: 40 * (len(calls) + 2) * (maxDepth + 2), IdleCap: 1})
	}
	if res == kernel.Stopped {
		return
	}
	if res != kernel.Done {
		var stuck []string
		mu.Lock()
		for _, c := range calls {
			if !c.returned {
				stuck = append(stuck, c.name)
			}
		}
		mu.Unlock()
		key := "call never returns"
		if ra.PendingLimit > 0 {
			key = "call never returns (pending limit set)"
		}
		s.Violate("liveness", key, "%d calls did not return after faults stopped (%s): %v", len(stuck), res, stuck)
		return
	}
	for _, sv := range svcs {
		sv.mu.Lock()
		var open []string
		for tok := range sv.open {
			open = append(open, tok)
		}
		sv.mu.Unlock()
		if len(open) > 0 {
			sort.Strings(open)
			key := "handler's nested call never returns"
			if ra.PendingLimit > 0 {
				key += " (pending limit set)"
			}
			s.Violate("liveness", key, "side %s: %d handlers still blocked in a call-back at quiescence: %v", sv.side, len(open), open)
			return
		}
	}
	// every request was handled exactly once on the other side
	for _, c := range calls {
		other := svcs[1-c.side]
		other.mu.Lock()
		n := other.count[c.token]
		other.mu.Unlock()
		if n != 1 && !(c.cancelled && n == 0) {
			s.Violate("handled_once", "request not handled exactly once", "request %q of %s handled %d times", c.token, c.name, n)
		}
	}
	s.ProbeN("c14.calls", len(calls))
}
