//go:debug randseednop=0
//go:debug asynctimerchan=0

// Package worker is the entry point of the simulation worker process.  It is
// a test binary because testing/synctest needs a *testing.T.
package worker

import (
	"testing"

	"verif/sim/workerlib"
)

func TestWorker(t *testing.T) { workerlib.Main(t) }
