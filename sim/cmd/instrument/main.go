// instrument writes, for the repository under test, copies of the source files that use sync/atomic with a
// simulator yield point (simhook.Yield("atomic:<file>:<line>")) inserted before every statement that performs an
// atomic operation, and an overlay file for `go build -overlay`.  The goroutine-level scheduler of the simulator
// cannot preempt between two machine instructions; code that synchronises through atomics is preempted exactly
// there by the real runtime, so those are the points the simulated schedule must be able to split.
//
// usage: instrument <repo dir> <out dir>   (writes <out dir>/overlay.json)
package main

import (
	"bytes"
	"encoding/json"
	"fmt"
	"go/ast"
	"go/format"
	"go/parser"
	"go/token"
	"os"
	"path/filepath"
	"strconv"
	"strings"
)

func fatal(f string, a ...interface{}) {
	fmt.Fprintf(os.Stderr, "instrument: "+f+"\n", a...)
	os.Exit(2)
}

func main() {
	if len(os.Args) != 3 {
		fatal("usage: instrument <repo dir> <out dir>")
	}
	repo, out := os.Args[1], os.Args[2]
	repo, _ = filepath.Abs(repo)
	mod := modulePath(filepath.Join(repo, "go.mod"))
	overlay := map[string]string{}
	n := 0
	err := filepath.Walk(repo, func(p string, fi os.FileInfo, err error) error {
		if err != nil {
			return err
		}
		if fi.IsDir() {
			b := fi.Name()
			if p != repo && (strings.HasPrefix(b, ".") || b == "vendor" || b == "testdata" || b == "simhook") {
				return filepath.SkipDir
			}
			return nil
		}
		if !strings.HasSuffix(p, ".go") || strings.HasSuffix(p, "_test.go") {
			return nil
		}
		src, err := os.ReadFile(p)
		if err != nil {
			return err
		}
		if !bytes.Contains(src, []byte(`"sync/atomic"`)) {
			return nil
		}
		rel, _ := filepath.Rel(repo, p)
		res, k, err := instrument(p, rel, src, mod)
		if err != nil {
			return fmt.Errorf("%s: %v", rel, err)
		}
		if k == 0 {
			return nil
		}
		dst := filepath.Join(out, strings.ReplaceAll(rel, string(filepath.Separator), "__"))
		if err := os.WriteFile(dst, res, 0644); err != nil {
			return err
		}
		overlay[p] = dst
		n += k
		return nil
	})
	if err != nil {
		fatal("%v", err)
	}
	b, _ := json.Marshal(map[string]interface{}{"Replace": overlay})
	if err := os.WriteFile(filepath.Join(out, "overlay.json"), b, 0644); err != nil {
		fatal("%v", err)
	}
	fmt.Printf("instrument: %d yield points before atomic operations in %d files\n", n, len(overlay))
}

func modulePath(gomod string) string {
	b, err := os.ReadFile(gomod)
	if err != nil {
		fatal("%v", err)
	}
	for _, l := range strings.Split(string(b), "\n") {
		if strings.HasPrefix(l, "module ") {
			return strings.TrimSpace(strings.TrimPrefix(l, "module "))
		}
	}
	fatal("no module line in %s", gomod)
	return ""
}

func instrument(path, rel string, src []byte, mod string) ([]byte, int, error) {
	fset := token.NewFileSet()
	f, err := parser.ParseFile(fset, path, src, parser.ParseComments)
	if err != nil {
		return nil, 0, err
	}
	atomicName := ""
	hookName := ""
	for _, im := range f.Imports {
		v, _ := strconv.Unquote(im.Path.Value)
		switch v {
		case "sync/atomic":
			atomicName = "atomic"
			if im.Name != nil {
				atomicName = im.Name.Name
			}
		case mod + "/simhook":
			hookName = "simhook"
			if im.Name != nil {
				hookName = im.Name.Name
			}
		}
	}
	if atomicName == "" || atomicName == "_" || atomicName == "." {
		return nil, 0, nil
	}
	addImport := hookName == ""
	if addImport {
		hookName = "verifsimhook"
	}
	// does the statement itself (not a nested block or function literal) perform an atomic operation?
	direct := func(st ast.Stmt) bool {
		found := false
		ast.Inspect(st, func(n ast.Node) bool {
			switch x := n.(type) {
			case *ast.BlockStmt, *ast.FuncLit:
				return n == ast.Node(st)
			case *ast.CallExpr:
				if sel, ok := x.Fun.(*ast.SelectorExpr); ok {
					if id, ok := sel.X.(*ast.Ident); ok && id.Name == atomicName && id.Obj == nil {
						found = true
					}
				}
			}
			return !found
		})
		return found
	}
	count := 0
	rewrite := func(list []ast.Stmt) []ast.Stmt {
		var out []ast.Stmt
		for _, st := range list {
			if _, isBlock := st.(*ast.BlockStmt); !isBlock && direct(st) {
				line := fset.Position(st.Pos()).Line
				call := &ast.ExprStmt{X: &ast.CallExpr{
					Fun:  &ast.SelectorExpr{X: ast.NewIdent(hookName), Sel: ast.NewIdent("Yield")},
					Args: []ast.Expr{&ast.BasicLit{Kind: token.STRING, Value: strconv.Quote(fmt.Sprintf("atomic:%s:%d", filepath.ToSlash(rel), line))}},
				}}
				out = append(out, call)
				count++
			}
			out = append(out, st)
		}
		return out
	}
	ast.Inspect(f, func(n ast.Node) bool {
		switch x := n.(type) {
		case *ast.BlockStmt:
			x.List = rewrite(x.List)
		case *ast.CaseClause:
			x.Body = rewrite(x.Body)
		case *ast.CommClause:
			x.Body = rewrite(x.Body)
		}
		return true
	})
	if count == 0 {
		return nil, 0, nil
	}
	if addImport {
		spec := &ast.ImportSpec{Name: ast.NewIdent(hookName), Path: &ast.BasicLit{Kind: token.STRING, Value: strconv.Quote(mod + "/simhook")}}
		decl := &ast.GenDecl{Tok: token.IMPORT, Specs: []ast.Spec{spec}}
		f.Decls = append([]ast.Decl{decl}, f.Decls...)
	}
	var buf bytes.Buffer
	if err := format.Node(&buf, fset, f); err != nil {
		return nil, 0, err
	}
	return buf.Bytes(), count, nil
}
