// Command check is the orchestrator behind every MANIFEST command:
//
//	check <property> <quick|thorough>     search
//	check <property> --replay <file>      replay
//
// It rebuilds the worker test binary from /repo's current tree (tag verif),
// fans out worker processes over disjoint run indices, merges their
// summaries, minimises the first violation per (oracle,key), consults
// known_findings.json, writes evidence/<property>.json and prints the
// verdict lines.  Exit: 0 held / only known findings, 1 violation, 2 harness
// or build trouble (never reported as a violation).
package main

import (
	"bytes"
	"context"
	"encoding/json"
	"fmt"
	"os"
	"os/exec"
	"os/signal"
	"path/filepath"
	"regexp"
	"runtime"
	"sort"
	"strconv"
	"strings"
	"sync"
	"syscall"
	"time"
)

// verifDir is where this framework lives (check.sh exports VERIF_DIR); repoDir is the repository
// under test (VERIF_REPO, default /repo: a background sweep may point it at a snapshot).
var verifDir = envOr("VERIF_DIR", "/verif")
var repoDir = envOr("VERIF_REPO", "/repo")

func envOr(k, d string) string {
	if v := os.Getenv(k); v != "" {
		return v
	}
	return d
}

// simModfile returns extra go flags: when the repository under test is not /repo the harness
// module is built with a copy of its go.mod whose replace directive points there.
func simModfile() []string {
	if repoDir == "/repo" {
		return nil
	}
	src := filepath.Join(verifDir, "sim", "go.mod")
	b, err := os.ReadFile(src)
	if err != nil {
		fatal2("%v", err)
	}
	dst := filepath.Join(verifDir, "bin", fmt.Sprintf("sim-%d.mod", os.Getpid()))
	os.WriteFile(dst, []byte(strings.Replace(string(b), "=> /repo", "=> "+repoDir, 1)), 0644)
	sum, _ := os.ReadFile(filepath.Join(verifDir, "sim", "go.sum"))
	os.WriteFile(strings.TrimSuffix(dst, ".mod")+".sum", sum, 0644)
	modfileToRemove = dst
	return []string{"-modfile", dst}
}

type meta struct {
	Name, Property, Doc, Level string
	Quick, Thorough            int
	Race, RaceOnly             bool
	Real, Stub                 []string
}

type trace struct {
	Vals []uint32 `json:"vals"`
	Tags []string `json:"tags,omitempty"`
}

type violation struct {
	Property string `json:"property"`
	Oracle   string `json:"oracle"`
	Key      string `json:"key"`
	Msg      string `json:"msg"`
	Step     int    `json:"step"`
}

type found struct {
	violation
	Run   uint64 `json:"run"`
	Trace *trace `json:"trace"`
	Hash  string `json:"hash"`
	// scen: scenario (plus "+race") that produced a crash-class finding
	scen string
}

type sample struct {
	Run   uint64   `json:"run"`
	Steps int      `json:"steps"`
	SimS  float64  `json:"sim_s"`
	Log   []string `json:"log"`
}

type summary struct {
	Scenario   string         `json:"scenario"`
	Property   string         `json:"property"`
	Seed       uint64         `json:"seed"`
	Runs       int            `json:"runs"`
	Steps      int64          `json:"steps"`
	SimTimeNs  int64          `json:"sim_time_ns"`
	WallS      float64        `json:"wall_s"`
	Sigs       []uint64       `json:"sigs"`
	NontrivN   int            `json:"nontrivial_runs"`
	States     []uint64       `json:"states"`
	Faults     map[string]int `json:"faults"`
	Probes     map[string]int `json:"probes"`
	Violations []found        `json:"violations"`
	Harness    []string       `json:"harness_errors"`
	Samples    []sample       `json:"samples"`
}

type replayFile struct {
	Property  string          `json:"property"`
	Scenario  string          `json:"scenario"`
	VerifSeed uint64          `json:"verif_seed"`
	Run       uint64          `json:"run"`
	Seed      uint64          `json:"run_seed"`
	Toolchain string          `json:"toolchain"`
	Race      bool            `json:"race_build,omitempty"`
	Violation violation       `json:"violation"`
	Hash      string          `json:"event_log_hash"`
	Trace     *trace          `json:"trace"`
	Minimised json.RawMessage `json:"minimised,omitempty"`
	Log       []string        `json:"log,omitempty"`
}

type knownEntry struct {
	Status   string `json:"status"` // known | fixed
	Property string `json:"property"`
	Oracle   string `json:"oracle"`
	Key      string `json:"key"`
	What     string `json:"what"`
	Commit   string `json:"commit,omitempty"`
}

// scratchToRemove is this run's scratch directory (database directories, worker outputs); it lives in memory.
var scratchToRemove string

// filesToRemove are the worker binaries built for this run.
var filesToRemove []string

// modfileToRemove is the go.mod copy written for a repository other than /repo.
var modfileToRemove string

// exit leaves nothing behind.
func exit(code int) {
	if scratchToRemove != "" {
		os.RemoveAll(scratchToRemove)
	}
	if modfileToRemove != "" {
		os.Remove(modfileToRemove)
		os.Remove(strings.TrimSuffix(modfileToRemove, ".mod") + ".sum")
	}
	for _, f := range filesToRemove {
		os.RemoveAll(f)
	}
	os.Exit(code)
}

func fatal2(format string, a ...interface{}) {
	fmt.Fprintf(os.Stderr, "check: "+format+"\n", a...)
	exit(2)
}

func goEnv() []string {
	env := os.Environ()
	env = append(env, "GOFLAGS=-mod=mod", "GOPROXY=off", "GOSUMDB=off", "GOTOOLCHAIN=local", "GODEBUG=asynctimerchan=0")
	return env
}

// l2Props: properties that also have L2 (production wiring) scenarios.  Their worker is the L2
// binary: /repo's package main with /verif/l2/l2_test.go overlaid; it contains every L1 scenario too.
var l2Props = map[string]bool{"C09": true, "C15": true, "C16": true, "C20": true}

func buildL2(out string) {
	cmd := exec.Command(filepath.Join(verifDir, "tools", "build_l2.sh"), out)
	cmd.Env = append(goEnv(), "VERIF_DIR="+verifDir, "VERIF_REPO="+repoDir)
	var buf bytes.Buffer
	cmd.Stdout, cmd.Stderr = &buf, &buf
	if err := cmd.Run(); err != nil {
		fmt.Fprintf(os.Stderr, "%s\n", buf.String())
		fatal2("building the L2 worker (package main of /repo + overlay) failed: %v", err)
	}
}

// instrumentOverlay writes copies of the repository's files that use sync/atomic with a yield point before every
// atomic operation (cmd/instrument) and returns the -overlay flag for the worker build.
func instrumentOverlay(dir string) []string {
	if err := os.MkdirAll(dir, 0755); err != nil {
		fatal2("instrument: %v", err)
	}
	cmd := exec.Command("go1.26.8", "run", "./cmd/instrument", repoDir, dir)
	cmd.Dir = filepath.Join(verifDir, "sim")
	cmd.Env = goEnv()
	var buf bytes.Buffer
	cmd.Stdout, cmd.Stderr = &buf, &buf
	if err := cmd.Run(); err != nil {
		fmt.Fprintf(os.Stderr, "%s\n", buf.String())
		fatal2("instrumenting the atomic operations of the repository failed: %v", err)
	}
	return []string{"-overlay", filepath.Join(dir, "overlay.json")}
}

func build(out string, race bool) {
	args := []string{"test", "-c", "-tags", "verif", "-o", out}
	args = append(args, simModfile()...)
	ovl := out + ".instr"
	filesToRemove = append(filesToRemove, ovl, out)
	args = append(args, instrumentOverlay(ovl)...)
	defer os.RemoveAll(ovl)
	if race {
		args = append(args, "-race")
	}
	args = append(args, "./worker")
	cmd := exec.Command("go1.26.8", args...)
	cmd.Dir = filepath.Join(verifDir, "sim")
	cmd.Env = goEnv()
	var buf bytes.Buffer
	cmd.Stdout, cmd.Stderr = &buf, &buf
	if err := cmd.Run(); err != nil {
		fmt.Fprintf(os.Stderr, "%s\n", buf.String())
		fatal2("building the worker from /repo failed: %v", err)
	}
}

func mix(seed uint64, scenario string, run uint64) uint64 {
	x := seed ^ 0x5851f42d4c957f2d
	for _, c := range []byte(scenario) {
		x = (x ^ uint64(c)) * 0x100000001b3
	}
	x ^= run * 0x9e3779b97f4a7c15
	sm := func(x *uint64) uint64 {
		*x += 0x9e3779b97f4a7c15
		z := *x
		z = (z ^ (z >> 30)) * 0xbf58476d1ce4e5b9
		z = (z ^ (z >> 27)) * 0x94d049bb133111eb
		return z ^ (z >> 31)
	}
	sm(&x)
	return sm(&x)
}

type workerOut struct {
	sum     *summary
	crashed bool
	stderr  string
	run     string // run in progress when it died
	exit    int
}

func runWorker(bin, scenario string, seed uint64, from, to, stride uint64, tier string, deadline time.Duration, scratch string, idx int) workerOut {
	out := filepath.Join(scratch, fmt.Sprintf("%s.%d.json", scenario, idx))
	prog := filepath.Join(scratch, fmt.Sprintf("%s.%d.progress", scenario, idx))
	cmd := exec.Command(bin, "-test.run", "^TestWorker$", "-test.timeout", "0", "-test.cpu", "2",
		"-scenario", scenario, "-seed", fmt.Sprint(seed), "-from", fmt.Sprint(from), "-to", fmt.Sprint(to), "-stride", fmt.Sprint(stride),
		"-out", out, "-progress", prog, "-tier", tier, "-deadline", deadline.String())
	cmd.Env = append(goEnv(), "VERIF_SCRATCH="+scratch, "GORACE=halt_on_error=1")
	var so, se bytes.Buffer
	cmd.Stdout, cmd.Stderr = &so, &se
	err := cmd.Run()
	w := workerOut{stderr: se.String() + so.String()}
	if err != nil {
		w.crashed = true
		if ee, ok := err.(*exec.ExitError); ok {
			w.exit = ee.ExitCode()
		} else {
			w.exit = -1
		}
		if b, e := os.ReadFile(prog); e == nil {
			w.run = strings.TrimSpace(string(b))
		}
		return w
	}
	b, err := os.ReadFile(out)
	if err != nil {
		w.crashed = true
		w.exit = -2
		return w
	}
	var s summary
	if err := json.Unmarshal(b, &s); err != nil {
		w.crashed = true
		w.exit = -3
		return w
	}
	w.sum = &s
	return w
}

var frameRe = regexp.MustCompile(`^([A-Za-z0-9_./\-]+(\.[A-Za-z0-9_(*).\-]+)+)\(`)

// classifyCrash looks at a dead worker's output: a Go panic whose first
// non-runtime frame is code of the repository (or its dependencies) is a
// crash of the code under test; anything else is harness trouble.
func classifyCrash(stderr string) (real bool, origin, headline string) {
	lines := strings.Split(stderr, "\n")
	for _, l := range lines {
		// the worker's watchdog found goroutines of the run waiting on a mutex of the code under test
		if strings.HasPrefix(l, "WEDGE: ") {
			fn, _, _ := strings.Cut(strings.TrimPrefix(l, "WEDGE: "), " ")
			return true, fn, "LOCK WEDGE"
		}
		// ... or running in it for minutes without end
		if strings.HasPrefix(l, "LIVELOCK: ") {
			fn, _, _ := strings.Cut(strings.TrimPrefix(l, "LIVELOCK: "), " ")
			return true, fn, "LIVELOCK"
		}
	}
	start := -1
	for i, l := range lines {
		if strings.HasPrefix(l, "panic: ") || strings.HasPrefix(l, "fatal error: ") {
			start = i
			headline = l
			break
		}
	}
	if start < 0 {
		return false, "", ""
	}
	if strings.Contains(headline, "WATCHDOG") {
		return false, "", headline
	}
	for _, l := range lines[start+1:] {
		if strings.HasPrefix(l, "\t") || l == "" || strings.HasPrefix(l, "goroutine ") || strings.HasPrefix(l, "[signal") {
			continue
		}
		m := frameRe.FindStringSubmatch(l)
		if m == nil {
			continue
		}
		fn := m[1]
		if strings.HasPrefix(fn, "runtime.") || strings.HasPrefix(fn, "panic") || strings.HasPrefix(fn, "runtime/") || strings.HasPrefix(fn, "internal/") || strings.HasPrefix(fn, "testing.") {
			continue
		}
		origin = fn
		break
	}
	if origin == "" || strings.HasPrefix(origin, "verif/sim/") {
		return false, origin, headline
	}
	return true, origin, headline
}

func loadKnown() []knownEntry {
	b, err := os.ReadFile(filepath.Join(verifDir, "known_findings.json"))
	if err != nil {
		return nil
	}
	var k struct {
		Findings []knownEntry `json:"findings"`
	}
	if err := json.Unmarshal(b, &k); err != nil {
		fatal2("known_findings.json: %v", err)
	}
	return k.Findings
}

func isKnown(known []knownEntry, v violation) *knownEntry {
	for i, k := range known {
		if k.Status == "known" && k.Property == v.Property && k.Oracle == v.Oracle && k.Key == v.Key {
			return &known[i]
		}
	}
	return nil
}

func safeName(s string) string {
	var b []byte
	for i := 0; i < len(s) && len(b) < 48; i++ {
		c := s[i]
		switch {
		case c >= 'a' && c <= 'z', c >= 'A' && c <= 'Z', c >= '0' && c <= '9':
			b = append(b, c)
		default:
			if len(b) > 0 && b[len(b)-1] != '_' {
				b = append(b, '_')
			}
		}
	}
	return strings.Trim(string(b), "_")
}

func main() {
	if len(os.Args) < 3 {
		fatal2("usage: check <property> <quick|thorough> | check <property> --replay <file>")
	}
	prop := os.Args[1]
	seed := uint64(1)
	if v := os.Getenv("VERIF_SEED"); v != "" {
		if n, err := strconv.ParseUint(v, 10, 64); err == nil {
			seed = n
		} else if n, err := strconv.ParseInt(v, 10, 64); err == nil {
			seed = uint64(n)
		}
	}
	binDir := filepath.Join(verifDir, "bin")
	os.MkdirAll(binDir, 0755)
	os.MkdirAll(filepath.Join(verifDir, "evidence"), 0755)
	os.MkdirAll(filepath.Join(verifDir, "replays"), 0755)

	if os.Args[2] == "--replay" {
		if len(os.Args) < 4 {
			fatal2("--replay needs a file")
		}
		doReplay(prop, os.Args[3], binDir)
		return
	}
	tier := os.Args[2]
	if t := os.Getenv("VERIF_TIER"); t == "quick" || t == "thorough" {
		tier = t
	}
	if tier != "quick" && tier != "thorough" {
		fatal2("tier must be quick or thorough")
	}
	start := time.Now()
	bin := filepath.Join(binDir, fmt.Sprintf("worker-%s-%d.test", prop, os.Getpid()))
	if l2Props[prop] {
		buildL2(bin)
	} else {
		build(bin, false)
	}
	filesToRemove = append(filesToRemove, bin)

	// scenario list from the binary itself
	listOut := bin + ".list.json"
	cmd := exec.Command(bin, "-test.run", "^TestWorker$", "-mode", "list", "-out", listOut)
	cmd.Env = goEnv()
	if b, err := cmd.CombinedOutput(); err != nil {
		fatal2("listing scenarios: %v\n%s", err, b)
	}
	var metas []meta
	lb, _ := os.ReadFile(listOut)
	os.Remove(listOut)
	if err := json.Unmarshal(lb, &metas); err != nil {
		fatal2("scenario list: %v", err)
	}
	var scs []meta
	needRace := false
	for _, m := range metas {
		if m.Property == prop {
			scs = append(scs, m)
			needRace = needRace || m.Race
		}
	}
	if len(scs) == 0 {
		fatal2("no scenario for property %s", prop)
	}
	raceBin := ""
	if needRace {
		raceBin = filepath.Join(binDir, fmt.Sprintf("worker-%s-%d.race.test", prop, os.Getpid()))
		build(raceBin, true)
		filesToRemove = append(filesToRemove, raceBin)
	}
	buildS := time.Since(start).Seconds()

	scratchRoot := "/dev/shm"
	if st, err := os.Stat(scratchRoot); err != nil || !st.IsDir() {
		scratchRoot = os.TempDir()
	}
	scratch, err := os.MkdirTemp(scratchRoot, "verif-"+prop+"-")
	if err != nil {
		fatal2("scratch: %v", err)
	}
	// (os.Exit skips deferred calls: the scratch directory - in memory, under /dev/shm - is removed by exit())
	scratchToRemove = scratch
	sigs := make(chan os.Signal, 1)
	signal.Notify(sigs, syscall.SIGINT, syscall.SIGTERM)
	go func() {
		<-sigs
		exit(2)
	}()

	budget := 100 * time.Second
	if tier == "thorough" {
		budget = 25 * time.Minute
	}
	if v := os.Getenv("VERIF_BUDGET_S"); v != "" {
		if n, err := strconv.Atoi(v); err == nil && n > 0 {
			budget = time.Duration(n) * time.Second
		}
	}
	scale := 1.0
	if v := os.Getenv("VERIF_SCALE"); v != "" {
		if f, err := strconv.ParseFloat(v, 64); err == nil && f > 0 {
			scale = f
		}
	}
	nw := runtime.NumCPU()
	if nw > 16 {
		nw = 16
	}
	if v := os.Getenv("VERIF_WORKERS"); v != "" {
		if n, err := strconv.Atoi(v); err == nil && n > 0 {
			nw = n
		}
	}

	type job struct {
		m    meta
		race bool
		bin  string
		runs uint64
	}
	var jobs []job
	for _, m := range scs {
		n := m.Quick
		if tier == "thorough" {
			n = m.Thorough
		}
		n = int(float64(n) * scale)
		if n < 1 {
			n = 1
		}
		if !m.RaceOnly {
			jobs = append(jobs, job{m: m, bin: bin, runs: uint64(n)})
		}
		if m.Race {
			rn := n / 10
			if rn < 1 {
				rn = 1
			}
			if m.RaceOnly {
				rn = n
			}
			jobs = append(jobs, job{m: m, race: true, bin: raceBin, runs: uint64(rn)})
		}
	}
	perJob := budget / time.Duration(len(jobs))

	merged := map[string]*summary{}
	var harness []string
	var crashes []found
	crashInfo := map[string]string{}
	totalWorkers := 0
	for _, j := range jobs {
		var wg sync.WaitGroup
		outs := make([]workerOut, nw)
		w := nw
		if uint64(w) > j.runs {
			w = int(j.runs)
		}
		for i := 0; i < w; i++ {
			wg.Add(1)
			go func(i int) {
				defer wg.Done()
				tag := i
				if j.race {
					tag += 100
				}
				outs[i] = runWorker(j.bin, j.m.Name, seed, uint64(i), j.runs, uint64(w), tier, perJob, scratch, tag)
			}(i)
		}
		wg.Wait()
		totalWorkers += w
		name := j.m.Name
		if j.race {
			name += "+race"
		}
		ms := merged[name]
		if ms == nil {
			ms = &summary{Scenario: name, Property: prop, Seed: seed, Faults: map[string]int{}, Probes: map[string]int{}}
			merged[name] = ms
		}
		sigs, states := map[uint64]struct{}{}, map[uint64]struct{}{}
		for i := 0; i < w; i++ {
			o := outs[i]
			if o.crashed {
				real, origin, head := classifyCrash(o.stderr)
				if strings.Contains(o.stderr, "WARNING: DATA RACE") && j.race {
					real, origin, head = true, raceOrigin(o.stderr), "DATA RACE"
				}
				if !real {
					tail := o.stderr
					if len(tail) > 6000 {
						tail = tail[len(tail)-6000:]
					}
					harness = append(harness, fmt.Sprintf("worker %d of %s died (exit %d, run %s) without a panic in the code under test:\n%s", i, name, o.exit, o.run, tail))
					continue
				}
				run, _ := strconv.ParseUint(o.run, 10, 64)
				oracle, key := "process_crash", "panic in "+origin
				if head == "DATA RACE" {
					oracle, key = "data_race", "race in "+origin
				}
				if head == "LIVELOCK" {
					oracle, key = "process_livelock", "a loop that does not end: "+origin
				}
				if head == "LOCK WEDGE" {
					oracle, key = "process_wedge", "requests wait for a lock that is held across a blocking operation: "+origin
				}
				fmt.Fprintf(os.Stderr, "check: worker %d of %s died in run %s: %s in %s\n", i, name, o.run, head, origin)
				f := found{violation: violation{Property: prop, Oracle: oracle, Key: key, Msg: head + "\n" + crashExcerpt(o.stderr)}, Run: run}
				f.Trace = nil
				f.scen = j.m.Name
				if j.race {
					f.scen += "+race"
				}
				crashes = append(crashes, f)
				crashInfo[key] = f.scen
				continue
			}
			s := o.sum
			ms.Runs += s.Runs
			ms.Steps += s.Steps
			ms.SimTimeNs += s.SimTimeNs
			ms.NontrivN += s.NontrivN
			if s.WallS > ms.WallS {
				ms.WallS = s.WallS
			}
			for _, x := range s.Sigs {
				sigs[x] = struct{}{}
			}
			for _, x := range s.States {
				states[x] = struct{}{}
			}
			for k, v := range s.Faults {
				ms.Faults[k] += v
			}
			for k, v := range s.Probes {
				ms.Probes[k] += v
			}
			ms.Violations = append(ms.Violations, s.Violations...)
			for _, h := range s.Harness {
				harness = append(harness, name+": "+h)
			}
			if len(ms.Samples) < 2 {
				ms.Samples = append(ms.Samples, s.Samples...)
			}
		}
		for x := range sigs {
			ms.Sigs = append(ms.Sigs, x)
		}
		for x := range states {
			ms.States = append(ms.States, x)
		}
	}

	// ------------------------------------------------------------ violations
	known := loadKnown()
	type verdict struct {
		v      violation
		replay string
		known  *knownEntry
		scen   string
	}
	var verdicts []verdict
	seen := map[string]bool{}
	names := make([]string, 0, len(merged))
	for n := range merged {
		names = append(names, n)
	}
	sort.Strings(names)
	minBudget := 6
	for _, n := range names {
		ms := merged[n]
		sort.Slice(ms.Violations, func(i, j int) bool { return ms.Violations[i].Run < ms.Violations[j].Run })
		for _, f := range ms.Violations {
			k := f.Oracle + "\x00" + f.Key
			if seen[k] {
				continue
			}
			seen[k] = true
			scName := strings.TrimSuffix(n, "+race")
			rf := replayFile{Property: prop, Scenario: scName, VerifSeed: seed, Run: f.Run, Seed: mix(seed, scName, f.Run),
				Toolchain: "go1.26.8", Race: strings.HasSuffix(n, "+race"), Violation: f.violation, Hash: f.Hash, Trace: f.Trace}
			path := filepath.Join(verifDir, "replays", fmt.Sprintf("%s-%s-%s.json", prop, safeName(f.Oracle), safeName(f.Key)))
			writeJSON(path, rf)
			kn := isKnown(known, f.violation)
			if minBudget > 0 {
				minBudget--
				b := bin
				if rf.Race {
					b = raceBin
				}
				// (the minimiser stops starting executions after 90 s; one execution of a scenario with child processes
				// and a looping change under test can take many minutes: it is given five, then the trace stays as it is)
				mctx, mcancel := context.WithTimeout(context.Background(), 5*time.Minute)
				mc := exec.CommandContext(mctx, b, "-test.run", "^TestWorker$", "-test.timeout", "0", "-mode", "minimise", "-scenario", scName, "-trace", path, "-out", path, "-tier", tier)
				mc.Env = append(goEnv(), "VERIF_SCRATCH="+scratch)
				out, err := mc.CombinedOutput()
				mcancel()
				if err != nil {
					fmt.Fprintf(os.Stderr, "check: minimisation of %s failed (%v); keeping the unminimised trace\n%s\n", path, err, tailStr(string(out), 1500))
				} else {
					fmt.Printf("  %s", tailStr(string(out), 400))
				}
			}
			verdicts = append(verdicts, verdict{v: f.violation, replay: path, known: kn, scen: n})
		}
	}
	for _, f := range crashes {
		k := f.Oracle + "\x00" + f.Key
		if seen[k] {
			continue
		}
		seen[k] = true
		scName := strings.TrimSuffix(f.scen, "+race")
		rf := replayFile{Property: prop, Scenario: scName, VerifSeed: seed, Run: f.Run, Seed: mix(seed, scName, f.Run),
			Toolchain: "go1.26.8", Race: strings.HasSuffix(f.scen, "+race"), Violation: f.violation}
		path := filepath.Join(verifDir, "replays", fmt.Sprintf("%s-%s-%s.json", prop, safeName(f.Oracle), safeName(f.Key)))
		writeJSON(path, rf)
		verdicts = append(verdicts, verdict{v: f.violation, replay: path, known: isKnown(known, f.violation), scen: f.scen})
	}

	// ------------------------------------------------------------ evidence
	evals, nontriv, distinct, steps, states := 0, 0, 0, int64(0), 0
	var simNs int64
	faults, probes := map[string]int{}, map[string]int{}
	var samples []interface{}
	perScen := map[string]interface{}{}
	var real, stub []string
	level := "exploration"
	for _, m := range scs {
		real = appendUniq(real, m.Real...)
		stub = appendUniq(stub, m.Stub...)
		if m.Level != "exploration" {
			level = m.Level
		}
	}
	for _, n := range names {
		ms := merged[n]
		evals += ms.Runs
		nontriv += ms.NontrivN
		distinct += len(ms.Sigs)
		steps += ms.Steps
		simNs += ms.SimTimeNs
		states += len(ms.States)
		for k, v := range ms.Faults {
			faults[k] += v
		}
		for k, v := range ms.Probes {
			probes[k] += v
		}
		for _, sm := range ms.Samples {
			if len(samples) < 3 {
				samples = append(samples, map[string]interface{}{"scenario": n, "run": sm.Run, "verif_seed": seed, "steps": sm.Steps, "sim_seconds": sm.SimS, "event_log": sm.Log})
			}
		}
		perScen[n] = map[string]interface{}{"runs": ms.Runs, "macro_steps": ms.Steps, "sim_seconds": float64(ms.SimTimeNs) / 1e9,
			"nontrivial_runs": ms.NontrivN, "distinct_schedule_signatures": len(ms.Sigs), "distinct_abstract_states": len(ms.States), "violating_runs_kept": len(ms.Violations)}
	}
	if len(samples) == 0 {
		samples = append(samples, map[string]interface{}{"note": "no violation-free non-trivial run was short enough to be kept as a sample", "scenarios": names})
	}
	wall := time.Since(start).Seconds()
	var zeroProbes []string
	for k, v := range probes {
		if v == 0 {
			zeroProbes = append(zeroProbes, k)
		}
	}
	nViol := 0
	var vlist []interface{}
	for _, vd := range verdicts {
		st := "violation"
		if vd.known != nil {
			st = "known-finding"
		} else {
			nViol++
		}
		vlist = append(vlist, map[string]interface{}{"status": st, "oracle": vd.v.Oracle, "key": vd.v.Key, "scenario": vd.scen, "replay": vd.replay, "msg": firstLine(vd.v.Msg)})
	}
	searchS := wall - buildS
	if searchS <= 0 {
		searchS = 0.001
	}
	ev := map[string]interface{}{
		"property_id": prop, "tier": tier, "seed": seed, "level": level,
		"coverage": map[string]interface{}{
			"evaluations":         evals,
			"distinct_nontrivial": distinct,
			"rule": "one evaluation = one simulated run (one seed = one exactly repeatable schedule, workload and fault sequence inside a testing/synctest bubble). " +
				"A run is non-trivial if at least one fault fired or the scheduler took a non-first enabled action while several were enabled (a cross-operation interleaving); " +
				"distinct_nontrivial counts distinct schedule signatures (hash of the sequence of (action kind, actor role) taken) among non-trivial runs, summed over scenarios.",
			"samples":                      samples,
			"nontrivial_runs":              nontriv,
			"macro_steps":                  steps,
			"simulated_seconds":            float64(simNs) / 1e9,
			"runs_per_hour":                int(float64(evals) / searchS * 3600),
			"faults_fired":                 faults,
			"probes":                       probes,
			"distinct_abstract_states":     states,
			"per_scenario":                 perScen,
			"components_real":              real,
			"components_stub":              stub,
			"worker_processes":             totalWorkers,
			"build_seconds":                buildS,
			"verif_seed":                   seed,
			"violations_and_findings":      vlist,
			"harness_errors":               len(harness),
			"exhaustive":                   false,
			"toolchain":                    "go1.26.8 (testing/synctest), repository packages compiled from /repo working tree with -tags verif",
			"probes_stuck_at_zero":         zeroProbes,
			"scenario_docs":                docs(scs),
			"run_index_range_per_scenario": "0..runs-1, run seed = mix(VERIF_SEED, scenario, index)",
		},
		"assumptions": []string{
			"sampling of schedules x faults x histories: a clean batch is evidence, not proof",
			"code compiled with go1.26.8 and GODEBUG=asynctimerchan=0 rather than the default toolchain",
			"stubs listed under components_stub behave as documented in DESIGN.md section 3",
		},
		"wall_s":     wall,
		"violations": nViol,
	}
	// (a sensitivity sweep against a patched copy of the repository must not overwrite the evidence of /repo)
	writeJSON(filepath.Join(verifDir, "evidence", prop+os.Getenv("VERIF_EVIDENCE_SUFFIX")+".json"), ev)

	// ------------------------------------------------------------ verdict
	fmt.Printf("check %s tier=%s seed=%d: %d runs, %d non-trivial, %d distinct schedule signatures, %d macro-steps, %.0f simulated s, %.1fs wall\n",
		prop, tier, seed, evals, nontriv, distinct, steps, float64(simNs)/1e9, wall)
	for _, vd := range verdicts {
		if vd.known != nil {
			fmt.Printf("KNOWN-FINDING: property=%s %s [%s] %s\n", prop, vd.v.Oracle, vd.v.Key, vd.known.What)
		}
	}
	if len(harness) > 0 {
		for i, h := range harness {
			if i < 5 {
				fmt.Fprintf(os.Stderr, "HARNESS: %s\n", h)
			}
		}
		fmt.Fprintf(os.Stderr, "check: %d harness errors; this run is not a verdict\n", len(harness))
		exit(2)
	}
	code := 0
	for _, vd := range verdicts {
		if vd.known == nil {
			fmt.Printf("  %s [%s] (%s): %s\n", vd.v.Oracle, vd.v.Key, vd.scen, firstLine(vd.v.Msg))
			fmt.Printf("VIOLATION property=%s replay=%s\n", prop, vd.replay)
			code = 1
		}
	}
	exit(code)
}

func docs(scs []meta) map[string]string {
	r := map[string]string{}
	for _, m := range scs {
		r[m.Name] = m.Doc
	}
	return r
}

func appendUniq(a []string, b ...string) []string {
	for _, x := range b {
		dup := false
		for _, y := range a {
			if x == y {
				dup = true
			}
		}
		if !dup {
			a = append(a, x)
		}
	}
	return a
}

func firstLine(s string) string {
	if i := strings.IndexByte(s, '\n'); i >= 0 {
		s = s[:i]
	}
	if len(s) > 400 {
		s = s[:400] + "..."
	}
	return s
}

func tailStr(s string, n int) string {
	if len(s) > n {
		return s[len(s)-n:]
	}
	return s
}

func crashExcerpt(stderr string) string {
	i := strings.Index(stderr, "panic: ")
	if j := strings.Index(stderr, "WARNING: DATA RACE"); j >= 0 && (i < 0 || j < i) {
		i = j
	}
	if j := strings.Index(stderr, "LIVELOCK: "); j >= 0 {
		var keep []string
		for _, g := range strings.Split(stderr[j:], "\n\n") {
			head, _, _ := strings.Cut(g, "\n")
			if strings.Contains(g, "vipnode/vipnode") && strings.Contains(head, "synctest bubble") && (strings.Contains(head, "[running") || strings.Contains(head, "[runnable")) && len(keep) < 3 {
				if len(g) > 1500 {
					g = g[:1500]
				}
				keep = append(keep, g)
			}
		}
		l, _, _ := strings.Cut(stderr[j:], "\n")
		return l + "\n" + strings.Join(keep, "\n\n")
	}
	if j := strings.Index(stderr, "WEDGE: "); j >= 0 {
		// the waiting goroutines and the holder: the blocks of the dump that mention the repository
		var keep []string
		for _, g := range strings.Split(stderr[j:], "\n\n") {
			if strings.Contains(g, "vipnode/vipnode") && strings.Contains(g, "synctest bubble") && len(keep) < 6 {
				if len(g) > 900 {
					g = g[:900]
				}
				keep = append(keep, g)
			}
		}
		l, _, _ := strings.Cut(stderr[j:], "\n")
		return l + "\n" + strings.Join(keep, "\n\n")
	}
	if i < 0 {
		i = 0
	}
	s := stderr[i:]
	if len(s) > 3000 {
		s = s[:3000]
	}
	return s
}

var raceFrame = regexp.MustCompile(`(?m)^  ((github\.com/vipnode|github\.com/gorilla|github\.com/dgraph-io)[^\s(]+)\(`)

func raceOrigin(stderr string) string {
	if m := raceFrame.FindStringSubmatch(stderr); m != nil {
		return m[1]
	}
	return "unknown"
}

func writeJSON(path string, v interface{}) {
	b, err := json.MarshalIndent(v, "", " ")
	if err != nil {
		fatal2("marshal: %v", err)
	}
	if err := os.WriteFile(path, append(b, '\n'), 0644); err != nil {
		fatal2("write %s: %v", path, err)
	}
}

func doReplay(prop, path, binDir string) {
	b, err := os.ReadFile(path)
	if err != nil {
		fatal2("%v", err)
	}
	var rf replayFile
	if err := json.Unmarshal(b, &rf); err != nil {
		fatal2("replay file: %v", err)
	}
	bin := filepath.Join(binDir, fmt.Sprintf("worker-replay-%d.test", os.Getpid()))
	if strings.Contains(rf.Scenario, "_l2_") {
		buildL2(bin)
	} else {
		build(bin, rf.Race)
	}
	filesToRemove = append(filesToRemove, bin)
	cmd := exec.Command(bin, "-test.run", "^TestWorker$", "-test.timeout", "0", "-mode", "replay", "-scenario", rf.Scenario, "-trace", path)
	cmd.Env = goEnv()
	var so, se bytes.Buffer
	cmd.Stdout, cmd.Stderr = &so, &se
	err = cmd.Run()
	os.Stdout.Write(so.Bytes())
	if err == nil {
		os.Remove(bin)
		exit(0)
	}
	code := 2
	if ee, ok := err.(*exec.ExitError); ok {
		code = ee.ExitCode()
	}
	if code == 1 && strings.Contains(so.String(), "VIOLATION property=") {
		os.Remove(bin)
		exit(1)
	}
	// the process died: a crash-class violation reproduces if the same origin panics again
	real, origin, head := classifyCrash(se.String() + so.String())
	if strings.Contains(se.String(), "WARNING: DATA RACE") && rf.Race {
		real, origin, head = true, raceOrigin(se.String()), "DATA RACE"
	}
	os.Stderr.Write([]byte(tailStr(se.String(), 4000)))
	os.Remove(bin)
	if real && (rf.Violation.Oracle == "process_crash" || rf.Violation.Oracle == "data_race" || rf.Violation.Oracle == "process_wedge") && strings.HasSuffix(rf.Violation.Key, origin) {
		fmt.Printf("REPLAY: reproduced: %s in %s\n", head, origin)
		fmt.Printf("VIOLATION property=%s replay=%s\n", prop, path)
		exit(1)
	}
	exit(2)
}
