// Package minimise shrinks a choice trace while a predicate keeps holding
// (Hypothesis-style: truncate, delete chunks, zero chunks, lower values).
package minimise

// Shrink returns a trace that still satisfies test and is (lexicographically
// by length, then values) no larger than vals.  test must be deterministic.
func Shrink(vals []uint32, test func([]uint32) bool) []uint32 {
	cur := append([]uint32(nil), vals...)
	try := func(c []uint32) bool {
		if test(c) {
			cur = append([]uint32(nil), c...)
			return true
		}
		return false
	}
	// 1. truncate from the end (missing choices read as 0)
	for n := len(cur) / 2; n >= 1; n /= 2 {
		for len(cur) > n && try(cur[:len(cur)-n]) {
		}
	}
	changed := true
	for pass := 0; changed && pass < 6; pass++ {
		changed = false
		// 2. delete chunks
		for size := len(cur) / 2; size >= 1; size /= 2 {
			for i := 0; i+size <= len(cur); {
				c := append(append([]uint32(nil), cur[:i]...), cur[i+size:]...)
				if try(c) {
					changed = true
				} else {
					i += size
				}
			}
		}
		// 3. zero chunks
		for size := len(cur) / 2; size >= 1; size /= 2 {
			for i := 0; i+size <= len(cur); i += size {
				all0 := true
				for _, v := range cur[i : i+size] {
					if v != 0 {
						all0 = false
					}
				}
				if all0 {
					continue
				}
				c := append([]uint32(nil), cur...)
				for j := i; j < i+size; j++ {
					c[j] = 0
				}
				if try(c) {
					changed = true
				}
			}
		}
		// 4. lower single values
		for i := 0; i < len(cur); i++ {
			if cur[i] == 0 {
				continue
			}
			lo, hi := uint32(0), cur[i] // invariant: hi works
			for lo < hi {
				mid := lo + (hi-lo)/2
				c := append([]uint32(nil), cur...)
				c[i] = mid
				if try(c) {
					hi = mid
					changed = true
				} else {
					lo = mid + 1
				}
				if i >= len(cur) {
					break
				}
			}
		}
		// trailing zeros carry no information
		for len(cur) > 0 && cur[len(cur)-1] == 0 {
			cur = cur[:len(cur)-1]
		}
	}
	return cur
}
