// Package models holds the small executable reference models the oracles
// compare the real code with.  They are written from the property statements
// and the documented contracts, not from the implementation.
package models

import (
	"math/big"
	"sort"
	"time"

	"github.com/vipnode/vipnode/v2/pool/store"
)

// Documented constants of the contract (pool/store/store.go doc comments and
// the property statements: "two-keep-alive expiry window", "15-minute
// freshness window").
const (
	ExpireWindow = 120 * time.Second
	NonceWindow  = 15 * time.Minute
)

// RefStore is the documented store.Store contract over explicit time.
type RefStore struct {
	Now      func() time.Time
	Nodes    map[store.NodeID]store.Node
	Peers    map[store.NodeID]map[store.NodeID]time.Time
	Links    map[store.NodeID]store.Account
	Accounts map[store.Account]*big.Int
	Trials   map[store.NodeID]*big.Int
	Nonces   map[string]int64
}

func NewRefStore(now func() time.Time) *RefStore {
	return &RefStore{Now: now,
		Nodes:    map[store.NodeID]store.Node{},
		Peers:    map[store.NodeID]map[store.NodeID]time.Time{},
		Links:    map[store.NodeID]store.Account{},
		Accounts: map[store.Account]*big.Int{},
		Trials:   map[store.NodeID]*big.Int{},
		Nonces:   map[string]int64{},
	}
}

// Clone is a deep copy (crash oracles compare with the state before and after an operation).
func (r *RefStore) Clone() *RefStore {
	c := NewRefStore(r.Now)
	for k, v := range r.Nodes {
		c.Nodes[k] = v
	}
	for k, v := range r.Peers {
		m := map[store.NodeID]time.Time{}
		for a, b := range v {
			m[a] = b
		}
		c.Peers[k] = m
	}
	for k, v := range r.Links {
		c.Links[k] = v
	}
	for k, v := range r.Accounts {
		c.Accounts[k] = new(big.Int).Set(v)
	}
	for k, v := range r.Trials {
		c.Trials[k] = new(big.Int).Set(v)
	}
	for k, v := range r.Nonces {
		c.Nonces[k] = v
	}
	return c
}

// CheckAndSaveNonce: accepted iff strictly above every accepted nonce of this
// identity and not older than the freshness window.  Marks never expire.
func (r *RefStore) CheckAndSaveNonce(id string, nonce int64) error {
	if nonce <= r.Now().Add(-NonceWindow).UnixNano() {
		return store.ErrInvalidNonce
	}
	if last, ok := r.Nonces[id]; ok && last >= nonce {
		return store.ErrInvalidNonce
	}
	r.Nonces[id] = nonce
	return nil
}

func (r *RefStore) GetNode(id store.NodeID) (*store.Node, error) {
	n, ok := r.Nodes[id]
	if !ok {
		return nil, store.ErrUnregisteredNode
	}
	return &n, nil
}

func (r *RefStore) SetNode(n store.Node) error {
	if n.ID == "" {
		return store.ErrMalformedNode
	}
	r.Nodes[n.ID] = n
	return nil
}

// Balance is what the model says a balance getter returns.
type Balance struct {
	Account store.Account
	Credit  *big.Int
}

func (r *RefStore) GetNodeBalance(id store.NodeID) (Balance, error) {
	if _, ok := r.Nodes[id]; !ok {
		return Balance{Credit: new(big.Int)}, store.ErrUnregisteredNode
	}
	if acc, ok := r.Links[id]; ok {
		return r.GetAccountBalance(acc), nil
	}
	if t, ok := r.Trials[id]; ok {
		return Balance{Credit: new(big.Int).Set(t)}, nil
	}
	return Balance{Credit: new(big.Int)}, nil
}

func (r *RefStore) AddNodeBalance(id store.NodeID, credit *big.Int) error {
	if _, ok := r.Nodes[id]; !ok {
		return store.ErrUnregisteredNode
	}
	if acc, ok := r.Links[id]; ok {
		r.addAccount(acc, credit)
		return nil
	}
	if r.Trials[id] == nil {
		r.Trials[id] = new(big.Int)
	}
	r.Trials[id].Add(r.Trials[id], credit)
	return nil
}

func (r *RefStore) addAccount(acc store.Account, credit *big.Int) {
	if r.Accounts[acc] == nil {
		r.Accounts[acc] = new(big.Int)
	}
	r.Accounts[acc].Add(r.Accounts[acc], credit)
}

func (r *RefStore) GetAccountBalance(acc store.Account) Balance {
	if b, ok := r.Accounts[acc]; ok {
		return Balance{Account: acc, Credit: new(big.Int).Set(b)}
	}
	return Balance{Credit: new(big.Int)}
}

func (r *RefStore) AddAccountBalance(acc store.Account, credit *big.Int) error {
	r.addAccount(acc, credit)
	return nil
}

// AddAccountNode links the node to the wallet and migrates its trial credit,
// exactly once.
func (r *RefStore) AddAccountNode(acc store.Account, id store.NodeID) error {
	if _, ok := r.Nodes[id]; !ok {
		return store.ErrUnregisteredNode
	}
	r.Links[id] = acc
	t := r.Trials[id]
	if t == nil {
		t = new(big.Int)
	}
	r.addAccount(acc, t)
	delete(r.Trials, id)
	return nil
}

func (r *RefStore) IsAccountNode(acc store.Account, id store.NodeID) error {
	if a, ok := r.Links[id]; !ok || a != acc {
		return store.ErrNotAuthorized
	}
	return nil
}

func (r *RefStore) GetAccountNodes(acc store.Account) []store.NodeID {
	var out []store.NodeID
	for id, a := range r.Links {
		if a == acc {
			out = append(out, id)
		}
	}
	sort.Slice(out, func(i, j int) bool { return out[i] < out[j] })
	return out
}

// Eligible is the set an active-host query may draw from.  Nodes whose last
// check-in is exactly one window old are reported separately: the boundary
// instant is a don't-care.
func (r *RefStore) Eligible(kind string) (in, boundary []store.NodeID) {
	since := r.Now().Add(-ExpireWindow)
	for id, n := range r.Nodes {
		if !n.IsHost || (kind != "" && n.Kind != kind) {
			continue
		}
		switch {
		case n.LastSeen.After(since):
			in = append(in, id)
		case n.LastSeen.Equal(since):
			boundary = append(boundary, id)
		}
	}
	sort.Slice(in, func(i, j int) bool { return in[i] < in[j] })
	return
}

func (r *RefStore) NodePeers(id store.NodeID) ([]store.NodeID, error) {
	if _, ok := r.Nodes[id]; !ok {
		return nil, store.ErrUnregisteredNode
	}
	var out []store.NodeID
	for p := range r.Peers[id] {
		if _, ok := r.Nodes[p]; ok {
			out = append(out, p)
		}
	}
	sort.Slice(out, func(i, j int) bool { return out[i] < out[j] })
	return out, nil
}

// UpdateNodePeers is the keep-alive: the node checks in now; every listed id
// that is registered becomes (or stays) tracked, stamped with that peer's own
// last check-in; tracked peers whose stamp is older than the window are
// evicted and returned (stamps exactly one window old are a don't-care and
// returned separately).
func (r *RefStore) UpdateNodePeers(id store.NodeID, peers []string, block uint64) (inactive, boundary []store.NodeID, err error) {
	n, ok := r.Nodes[id]
	if !ok {
		return nil, nil, store.ErrUnregisteredNode
	}
	now := r.Now()
	n.LastSeen = now
	n.BlockNumber = block
	r.Nodes[id] = n
	if r.Peers[id] == nil {
		r.Peers[id] = map[store.NodeID]time.Time{}
	}
	for _, p := range peers {
		if pn, ok := r.Nodes[store.NodeID(p)]; ok {
			r.Peers[id][store.NodeID(p)] = pn.LastSeen
		}
	}
	deadline := now.Add(-ExpireWindow)
	for p, ts := range r.Peers[id] {
		if ts.After(deadline) {
			continue
		}
		if ts.Equal(deadline) {
			boundary = append(boundary, p)
			continue
		}
		delete(r.Peers[id], p)
		inactive = append(inactive, p)
	}
	sort.Slice(inactive, func(i, j int) bool { return inactive[i] < inactive[j] })
	return
}

// ResolveBoundary makes the model follow what the implementation did with a
// don't-care peer (evicted or kept).
func (r *RefStore) ResolveBoundary(id, peer store.NodeID, evicted bool) {
	if evicted {
		delete(r.Peers[id], peer)
	}
}

// Stats are the true counts and sums.
type Stats struct {
	TotalHosts, TotalClients   int
	ActiveHosts, ActiveClients int
	BoundaryNodes              int // nodes whose LastSeen is exactly one window old (don't-care for active counts)
	LatestBlock                uint64
	TotalCredit                *big.Int
	TrialBalances              int
}

func (r *RefStore) Stats() Stats {
	st := Stats{TotalCredit: new(big.Int)}
	since := r.Now().Add(-ExpireWindow)
	for _, n := range r.Nodes {
		active := n.LastSeen.After(since)
		if n.LastSeen.Equal(since) {
			st.BoundaryNodes++
		}
		if n.IsHost {
			st.TotalHosts++
			if active {
				st.ActiveHosts++
			}
		} else {
			st.TotalClients++
			if active {
				st.ActiveClients++
			}
		}
		if n.BlockNumber > st.LatestBlock {
			st.LatestBlock = n.BlockNumber
		}
	}
	for _, b := range r.Accounts {
		st.TotalCredit.Add(st.TotalCredit, b) // (a wallet is a wallet, whatever its name: trial balances are those of unlinked nodes)
	}
	for _, b := range r.Trials {
		st.TotalCredit.Add(st.TotalCredit, b)
		st.TrialBalances++
	}
	return st
}

// TotalCredit is the conserved quantity of the ledger.
func (r *RefStore) TotalCredit() *big.Int { return r.Stats().TotalCredit }
