module verif/sim

go 1.26.8

require (
	github.com/anishathalye/porcupine v1.3.0
	github.com/vipnode/vipnode/v2 v2.0.0
)

replace github.com/vipnode/vipnode/v2 => /repo
