module verif/sim

go 1.26.8

require (
	github.com/anishathalye/porcupine v1.3.0
	github.com/dgraph-io/badger/v2 v2.0.3
	github.com/vipnode/vipnode/v2 v2.0.0
)

require (
	github.com/DataDog/zstd v1.4.1 // indirect
	github.com/cespare/xxhash v1.1.0 // indirect
	github.com/dgraph-io/ristretto v0.0.2 // indirect
	github.com/dgryski/go-farm v0.0.0-20200201041132-a6ae2369ad13 // indirect
	github.com/dustin/go-humanize v1.0.0 // indirect
	github.com/golang/protobuf v1.4.2 // indirect
	github.com/golang/snappy v0.0.1 // indirect
	github.com/pkg/errors v0.9.1 // indirect
	github.com/vipnode/ether v0.0.0-20181219204546-d717f248a245 // indirect
	golang.org/x/net v0.0.0-20200602114024-627f9648deb9 // indirect
	golang.org/x/sys v0.0.0-20200610111108-226ff32320da // indirect
	google.golang.org/protobuf v1.24.0 // indirect
)

replace github.com/vipnode/vipnode/v2 => /repo
