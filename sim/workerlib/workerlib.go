// Package workerlib is the body of the simulation worker process (search, replay, minimise, list); the L1 worker
// a test binary because testing/synctest needs a *testing.T.
package workerlib

import (
	"encoding/json"
	"flag"
	"fmt"
	badgerstore "github.com/vipnode/vipnode/v2/pool/store/badger"
	"os"
	"path/filepath"
	"runtime"
	"sort"
	"strconv"
	"strings"
	"testing"
	"testing/synctest"
	"time"
	"verif/sim/seams"

	"verif/sim/kernel"
	"verif/sim/minimise"
	"verif/sim/scen"
)

var (
	fScenario = flag.String("scenario", "", "scenario name")
	fSeed     = flag.Uint64("seed", 1, "VERIF_SEED")
	fFrom     = flag.Uint64("from", 0, "first run index")
	fTo       = flag.Uint64("to", 1, "one past the last run index")
	fStride   = flag.Uint64("stride", 1, "run index stride")
	fOut      = flag.String("out", "", "summary output file (JSON)")
	fMode     = flag.String("mode", "search", "search | replay | minimise | list")
	fTrace    = flag.String("trace", "", "replay file (replay / minimise mode)")
	fElapsed  = flag.Duration("elapsed", 0, "openprobe mode: simulated time that has passed in the asking run")
	fDeadline = flag.Duration("deadline", 0, "stop starting new runs after this much wall time")
	fProgress = flag.String("progress", "", "file that always names the run in progress (crash attribution)")
	fLogs     = flag.Bool("logs", false, "print per-run hashes")
	fTier     = flag.String("tier", "quick", "tier")
	fDump     = flag.Bool("dump", false, "search mode: keep and print the event log of every run")
	fMaxViol  = flag.Int("maxviol", 3, "violations kept per (oracle,key)")
)

// Summary is what a worker reports for a range of runs.
type Summary struct {
	Scenario   string            `json:"scenario"`
	Property   string            `json:"property"`
	Seed       uint64            `json:"seed"`
	Runs       int               `json:"runs"`
	Steps      int64             `json:"steps"`
	SimTimeNs  int64             `json:"sim_time_ns"`
	WallS      float64           `json:"wall_s"`
	Sigs       []uint64          `json:"sigs"` // distinct schedule signatures of non-trivial runs
	NontrivN   int               `json:"nontrivial_runs"`
	States     []uint64          `json:"states"`
	Faults     map[string]int    `json:"faults"`
	Probes     map[string]int    `json:"probes"`
	Violations []FoundViolation  `json:"violations"`
	Harness    []string          `json:"harness_errors"`
	Hashes     map[string]string `json:"hashes,omitempty"`
	Samples    []Sample          `json:"samples"`
}

type FoundViolation struct {
	kernel.Violation
	Run   uint64        `json:"run"`
	Trace *kernel.Trace `json:"trace"`
	Hash  string        `json:"hash"`
}

type Sample struct {
	Run   uint64   `json:"run"`
	Steps int      `json:"steps"`
	SimS  float64  `json:"sim_s"`
	Log   []string `json:"log"`
}

// ReplayFile is the on-disk replay format.
type ReplayFile struct {
	Property  string           `json:"property"`
	Scenario  string           `json:"scenario"`
	VerifSeed uint64           `json:"verif_seed"`
	Run       uint64           `json:"run"`
	Seed      uint64           `json:"run_seed"`
	Toolchain string           `json:"toolchain"`
	Violation kernel.Violation `json:"violation"`
	Hash      string           `json:"event_log_hash"`
	Trace     *kernel.Trace    `json:"trace"`
	Minimised *MinInfo         `json:"minimised,omitempty"`
	Log       []string         `json:"log,omitempty"`
}

type MinInfo struct {
	OriginalChoices int     `json:"original_choices"`
	Choices         int     `json:"choices"`
	NonZero         int     `json:"nonzero_choices"`
	Executions      int     `json:"executions"`
	WallS           float64 `json:"wall_s"`
}

func runOne(t *testing.T, sc *scen.Scenario, seed uint64, replay *kernel.Trace, keep bool) *kernel.Result {
	cfg := kernel.Config{Property: sc.Property, Scenario: sc.Name, Seed: seed, Replay: replay, KeepLog: keep, MaxSteps: sc.MaxSteps, Tier: *fTier}
	return kernel.Run(t, cfg, sc.Run)
}

func Main(t *testing.T) {
	if *fMode == "list" {
		type meta struct {
			Name, Property, Doc, Level string
			Quick, Thorough            int
			Race, RaceOnly             bool
			Real, Stub                 []string
		}
		var ms []meta
		for _, n := range scen.Names() {
			sc := scen.Get(n)
			ms = append(ms, meta{sc.Name, sc.Property, sc.Doc, sc.Level, sc.Quick, sc.Thorough, sc.Race, sc.RaceOnly, sc.Real, sc.Stub})
		}
		writeJSON(*fOut, ms)
		return
	}
	if *fMode == "openprobe" {
		// helper for crash images that may not open: badger leaves its background goroutines behind when Open
		// fails, which a simulated run cannot survive - the attempt is made in a process of its own
		// (-trace = database directory, -tier = memtable size knob)
		// The attempt runs on the simulated clock of the run that asks (-elapsed = how far that run's clock has come):
		// what a migration does with a saved nonce depends on its age.
		mb, _ := strconv.Atoi(*fTier)
		go func() {
			// (real time, outside the bubble: an Open that never returns must not hang the run that asked - nor fill
			// the machine's memory, which is where the directory lives)
			for i := 0; i < 45; i++ {
				time.Sleep(2 * time.Second)
				var n int64
				filepath.Walk(*fTrace, func(_ string, fi os.FileInfo, err error) error {
					if err == nil && !fi.IsDir() {
						n += fi.Size()
					}
					return nil
				})
				if n > 4<<30 {
					fmt.Printf("OPEN-ERR: Open has not returned and has written %d MB so far (it is still running)\n", n>>20)
					os.RemoveAll(*fTrace)
					os.Exit(0)
				}
			}
			fmt.Println("OPEN-ERR: Open has not returned after 90 seconds of real time (it is still running)")
			os.Exit(0)
		}()
		synctest.Test(t, func(t *testing.T) {
			time.Sleep(*fElapsed)
			st, err := badgerstore.Open(seams.BadgerOptions(*fTrace, mb))
			if err != nil {
				fmt.Printf("OPEN-ERR: %v\n", err)
				os.Exit(0)
			}
			st.Close()
			fmt.Println("OPEN-OK")
			os.Exit(0)
		})
		os.Exit(0)
	}
	sc := scen.Get(*fScenario)
	if sc == nil {
		fmt.Fprintf(os.Stderr, "unknown scenario %q\n", *fScenario)
		os.Exit(2)
	}
	go watchdog()
	switch *fMode {
	case "search":
		search(t, sc)
	case "replay":
		replay(t, sc)
	case "minimise":
		doMinimise(t, sc)
	default:
		fmt.Fprintf(os.Stderr, "unknown mode %q\n", *fMode)
		os.Exit(2)
	}
}

// lockWedge looks for goroutines of the simulated run that are blocked on a mutex inside the code under test.
// Under the simulator a mutex is only ever waited for during the few instructions its holder needs; a goroutine
// that has been waiting for many real seconds means the holder is itself blocked on something only the scheduler
// or the simulated clock can provide - a lock held across a blocking operation (a network call, a timeout).
// Returns the function that waits, or "".
func lockWedge(stacks string) string {
	for _, g := range strings.Split(stacks, "\n\n") {
		head, _, _ := strings.Cut(g, "\n")
		if !strings.Contains(head, "synctest bubble") || !(strings.Contains(head, "[sync.Mutex.Lock") || strings.Contains(head, "[sync.RWMutex.")) {
			continue
		}
		if !strings.Contains(head, "minutes") && !strings.Contains(head, "minute") {
			continue // blocked for less than a minute of real time
		}
		for _, l := range strings.Split(g, "\n")[1:] {
			if strings.HasPrefix(l, "\t") {
				continue
			}
			if strings.HasPrefix(l, "sync.") || strings.HasPrefix(l, "internal/") || strings.HasPrefix(l, "runtime.") {
				continue
			}
			if i := strings.IndexByte(l, '('); i > 0 && strings.Contains(l, "vipnode/vipnode") {
				fn := l
				if j := strings.LastIndex(l, "("); j > 0 {
					fn = l[:j]
				}
				return fn
			}
			break // the lock belongs to somebody else (badger, net/http, the harness)
		}
	}
	return ""
}

// spinning finds a goroutine of the run that is running (not waiting for anything) in code of the repository under test.
// Called when the scheduler has not been asked anything for minutes: with every timer on the simulated clock and every
// peer in the same process, code that is still running then is in a loop that does not end.
func spinning(stacks string) string {
	for _, g := range strings.Split(stacks, "\n\n") {
		head, _, _ := strings.Cut(g, "\n")
		if !strings.Contains(head, "synctest bubble") || !(strings.Contains(head, "[running") || strings.Contains(head, "[runnable")) {
			continue
		}
		for _, l := range strings.Split(g, "\n")[1:] {
			if strings.HasPrefix(l, "\t") {
				continue
			}
			if i := strings.IndexByte(l, '('); i > 0 && strings.Contains(l, "vipnode/vipnode") {
				fn := l
				if j := strings.LastIndex(l, "("); j > 0 {
					fn = l[:j]
				}
				return fn
			}
		}
	}
	return ""
}

// scratchBytes is what this worker's recent scratch directories (memory, under /dev/shm) hold.
func scratchBytes() int64 {
	var n int64
	for _, root := range seams.RecentScratchDirs() {
		filepath.Walk(root, func(_ string, fi os.FileInfo, err error) error {
			if err == nil && !fi.IsDir() {
				n += fi.Size()
			}
			return nil
		})
	}
	return n
}

func watchdog() {
	last, lastT := kernel.Heartbeat(), time.Now()
	for {
		time.Sleep(5 * time.Second)
		if n := scratchBytes(); n > 6<<30 {
			// a loop that writes: it would take the machine's memory with it long before the scheduler is missed
			buf := make([]byte, 4<<20)
			st := string(buf[:runtime.Stack(buf, true)])
			if fn := spinning(st); fn != "" {
				fmt.Fprintf(os.Stderr, "LIVELOCK: %s has been running for minutes without waiting for anything: a loop in the code under test that does not end (it has written %d MB so far)\n%s\n", fn, n>>20, st)
			} else {
				fmt.Fprintf(os.Stderr, "WATCHDOG: the run has written %d MB of scratch data\n%s\n", n>>20, st)
			}
			for _, d := range seams.RecentScratchDirs() {
				os.RemoveAll(d)
			}
			os.Exit(2)
		}
		h := kernel.Heartbeat()
		if h != last {
			last, lastT = h, time.Now()
			continue
		}
		if time.Since(lastT) > 75*time.Second {
			buf := make([]byte, 4<<20)
			st := string(buf[:runtime.Stack(buf, true)])
			if fn := lockWedge(st); fn != "" {
				fmt.Fprintf(os.Stderr, "WEDGE: %s has been waiting for a lock of the code under test for more than a minute: its holder is blocked on something that only other requests, the peer or the clock can provide\n%s\n", fn, st)
				os.Exit(2)
			}
		}
		if time.Since(lastT) > 150*time.Second {
			buf := make([]byte, 4<<20)
			n := runtime.Stack(buf, true)
			// (two looks a few seconds apart: a long computation that is about to finish is not a loop)
			if fn := spinning(string(buf[:n])); fn != "" {
				time.Sleep(20 * time.Second)
				if kernel.Heartbeat() == h {
					buf2 := make([]byte, 4<<20)
					st2 := string(buf2[:runtime.Stack(buf2, true)])
					if fn2 := spinning(st2); fn2 != "" {
						fmt.Fprintf(os.Stderr, "LIVELOCK: %s has been running for minutes without waiting for anything: a loop in the code under test that does not end\n%s\n", fn2, st2)
						os.Exit(2)
					}
				}
			}
			fmt.Fprintf(os.Stderr, "WATCHDOG: no scheduler progress for 150s\n%s\n", buf[:n])
			os.Exit(2)
		}
	}
}

func writeJSON(path string, v interface{}) {
	b, err := json.MarshalIndent(v, "", " ")
	if err != nil {
		fmt.Fprintln(os.Stderr, "marshal:", err)
		os.Exit(2)
	}
	if path == "" || path == "-" {
		os.Stdout.Write(append(b, '\n'))
		return
	}
	if err := os.WriteFile(path, b, 0644); err != nil {
		fmt.Fprintln(os.Stderr, "write:", err)
		os.Exit(2)
	}
}

func search(t *testing.T, sc *scen.Scenario) {
	start := time.Now()
	sum := &Summary{Scenario: sc.Name, Property: sc.Property, Seed: *fSeed, Faults: map[string]int{}, Probes: map[string]int{}}
	sigs := map[uint64]struct{}{}
	states := map[uint64]struct{}{}
	kept := map[string]int{}
	if *fLogs {
		sum.Hashes = map[string]string{}
	}
	for run := *fFrom; run < *fTo; run += *fStride {
		if *fDeadline > 0 && time.Since(start) > *fDeadline {
			break
		}
		if *fProgress != "" {
			os.WriteFile(*fProgress, []byte(fmt.Sprintf("%d\n", run)), 0644)
		}
		seed := kernel.Mix(*fSeed, sc.Name, run)
		res := runOne(t, sc, seed, nil, *fDump)
		if strings.Contains(res.Harness, "blocked goroutines remain") && len(res.Violations) == 0 {
			// every oracle of the run was evaluated (the scenario body had returned) and a goroutine was still
			// blocked when the bubble ended.  Teardown is the one place where real parallelism between goroutines
			// decides something (who notices the reset connection first); the same seed is executed again, and only
			// a leak that shows again counts as harness trouble.
			for k := 0; k < 2 && res.Harness != ""; k++ {
				res = runOne(t, sc, seed, nil, *fDump)
			}
			if res.Harness == "" {
				sum.Probes["kernel.teardown_leak_not_reproduced_on_rerun"]++
			}
		}
		if *fDump {
			fmt.Printf("== run %d seed %d hash %s\n%s\n", run, seed, res.Hash, strings.Join(res.Log, "\n"))
		}
		sum.Runs++
		sum.Steps += int64(res.Steps)
		sum.SimTimeNs += res.SimTimeNs
		if res.Nontrivial {
			sum.NontrivN++
			sigs[res.SchedSig] = struct{}{}
		}
		for _, st := range res.States {
			if len(states) < 200000 {
				states[st] = struct{}{}
			}
		}
		for k, v := range res.Faults {
			sum.Faults[k] += v
		}
		for k, v := range res.Probes {
			sum.Probes[k] += v
		}
		if res.Harness != "" {
			sum.Harness = append(sum.Harness, fmt.Sprintf("run %d: %s", run, res.Harness))
		}
		for _, h := range kernel.TakeHarnessErrors() {
			sum.Harness = append(sum.Harness, fmt.Sprintf("run %d: %s", run, h))
		}
		if sum.Hashes != nil {
			sum.Hashes[fmt.Sprint(run)] = res.Hash
		}
		for _, v := range res.Violations {
			k := v.Oracle + "\x00" + v.Key
			if kept[k] < *fMaxViol {
				kept[k]++
				sum.Violations = append(sum.Violations, FoundViolation{Violation: v, Run: run, Trace: res.Trace, Hash: res.Hash})
			}
		}
		if len(sum.Samples) < 2 && res.Nontrivial && len(res.Violations) == 0 && res.Steps < 400 {
			// re-run the same seed with the log kept: a sample of what was explored
			r2 := runOne(t, sc, seed, nil, true)
			if r2.Hash != res.Hash {
				sum.Harness = append(sum.Harness, fmt.Sprintf("run %d: NONDETERMINISM: same seed gave event-log hash %s then %s", run, res.Hash, r2.Hash))
			}
			lg := r2.Log
			if len(lg) > 60 {
				lg = append(lg[:60:60], fmt.Sprintf("... (%d more lines)", len(r2.Log)-60))
			}
			sum.Samples = append(sum.Samples, Sample{Run: run, Steps: r2.Steps, SimS: float64(r2.SimTimeNs) / 1e9, Log: lg})
		}
		if len(sum.Harness) > 5 {
			break
		}
	}
	if *fProgress != "" {
		os.WriteFile(*fProgress, []byte("done\n"), 0644)
	}
	for k := range sigs {
		sum.Sigs = append(sum.Sigs, k)
	}
	for k := range states {
		sum.States = append(sum.States, k)
	}
	sort.Slice(sum.Sigs, func(i, j int) bool { return sum.Sigs[i] < sum.Sigs[j] })
	sort.Slice(sum.States, func(i, j int) bool { return sum.States[i] < sum.States[j] })
	sum.WallS = time.Since(start).Seconds()
	writeJSON(*fOut, sum)
}

func loadReplay() *ReplayFile {
	b, err := os.ReadFile(*fTrace)
	if err != nil {
		fmt.Fprintln(os.Stderr, "replay file:", err)
		os.Exit(2)
	}
	var rf ReplayFile
	if err := json.Unmarshal(b, &rf); err != nil {
		fmt.Fprintln(os.Stderr, "replay file:", err)
		os.Exit(2)
	}
	return &rf
}

func sameViolation(res *kernel.Result, want kernel.Violation) *kernel.Violation {
	for i, v := range res.Violations {
		if v.Oracle == want.Oracle && v.Key == want.Key {
			return &res.Violations[i]
		}
	}
	return nil
}

// replay re-executes a replay file; exit status 1 + VIOLATION line when the
// recorded violation reproduces with the recorded event-log hash, 2 when the
// execution diverges, 0 when the violation no longer occurs.
func replay(t *testing.T, sc *scen.Scenario) {
	rf := loadReplay()
	// a replay file without a trace (process-crash class) replays from the run seed
	res := runOne(t, sc, rf.Seed, rf.Trace, true)
	for _, l := range res.Log {
		fmt.Println(l)
	}
	v := sameViolation(res, rf.Violation)
	if v == nil {
		fmt.Printf("REPLAY: violation %s [%s] did not occur (violations now: %d, hash %s)\n", rf.Violation.Oracle, rf.Violation.Key, len(res.Violations), res.Hash)
		if len(res.Violations) > 0 {
			for _, o := range res.Violations {
				fmt.Printf("REPLAY: other violation: %s [%s] %s\n", o.Oracle, o.Key, o.Msg)
			}
		}
		os.Exit(0)
	}
	if rf.Hash != "" && res.Hash != rf.Hash {
		fmt.Printf("REPLAY DIVERGED: violation reproduced but event-log hash %s != recorded %s\n", res.Hash, rf.Hash)
		os.Exit(2)
	}
	fmt.Printf("REPLAY: reproduced: %s [%s] %s\n", v.Oracle, v.Key, v.Msg)
	fmt.Printf("VIOLATION property=%s replay=%s\n", rf.Property, *fTrace)
	os.Exit(1)
}

// doMinimise shrinks the trace of a replay file in-process and rewrites it.
func doMinimise(t *testing.T, sc *scen.Scenario) {
	rf := loadReplay()
	start := time.Now()
	execs := 0
	test := func(vals []uint32) bool {
		execs++
		res := runOne(t, sc, rf.Seed, &kernel.Trace{Vals: vals}, false)
		return sameViolation(res, rf.Violation) != nil
	}
	orig := rf.Trace.Vals
	if !test(orig) {
		fmt.Fprintf(os.Stderr, "minimise: the recorded trace does not reproduce %s [%s]\n", rf.Violation.Oracle, rf.Violation.Key)
		os.Exit(2)
	}
	budget := 400
	if *fDeadline == 0 {
		*fDeadline = 90 * time.Second
	}
	small := minimise.Shrink(orig, func(v []uint32) bool {
		if execs >= budget || time.Since(start) > *fDeadline {
			return false
		}
		return test(v)
	})
	res := runOne(t, sc, rf.Seed, &kernel.Trace{Vals: small}, true)
	v := sameViolation(res, rf.Violation)
	if v == nil {
		fmt.Fprintln(os.Stderr, "minimise: minimised trace stopped reproducing; keeping the original")
		res = runOne(t, sc, rf.Seed, &kernel.Trace{Vals: orig}, true)
		v = sameViolation(res, rf.Violation)
		small = orig
		if v == nil {
			os.Exit(2)
		}
	}
	// normalise: the recorded choices of the final run are the canonical trace
	rf.Trace = res.Trace
	rf.Hash = res.Hash
	rf.Violation = *v
	rf.Log = res.Log
	nz := 0
	for _, x := range res.Trace.Vals {
		if x != 0 {
			nz++
		}
	}
	rf.Minimised = &MinInfo{OriginalChoices: len(orig), Choices: len(res.Trace.Vals), NonZero: nz, Executions: execs, WallS: time.Since(start).Seconds()}
	rf.Toolchain = runtime.Version()
	out := *fOut
	if out == "" {
		out = *fTrace
	}
	writeJSON(out, rf)
	fmt.Printf("minimised %d -> %d choices (%d non-zero) in %d executions: %s\n", len(orig), len(res.Trace.Vals), nz, execs, strings.SplitN(v.Msg, "\n", 2)[0])
}
