#!/bin/sh
# ./check.sh <property> <quick|thorough>     or     ./check.sh <property> --replay <file>
# Rebuilds everything it needs from the repository's current working tree (VERIF_REPO, default /repo).
export GOFLAGS=-mod=mod GOPROXY=off GOSUMDB=off GOTOOLCHAIN=local
VERIF_DIR=$(cd "$(dirname "$0")" && pwd)
export VERIF_DIR
cd "$VERIF_DIR/sim" || exit 2
mkdir -p "$VERIF_DIR/bin"
if [ ! -x "$VERIF_DIR/bin/check" ] || [ -n "$(find "$VERIF_DIR/sim/cmd/check" -newer "$VERIF_DIR/bin/check" -name '*.go' 2>/dev/null)" ]; then
  go1.26.8 build -o "$VERIF_DIR/bin/check.$$" ./cmd/check && mv "$VERIF_DIR/bin/check.$$" "$VERIF_DIR/bin/check" || exit 2
fi
exec "$VERIF_DIR/bin/check" "$@"
