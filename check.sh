#!/bin/sh
# ./check.sh <property> <quick|thorough>     or     ./check.sh <property> --replay <file>
# Rebuilds everything it needs from /repo's current working tree.
export GOFLAGS=-mod=mod GOPROXY=off GOSUMDB=off GOTOOLCHAIN=local
cd /verif/sim || exit 2
mkdir -p /verif/bin
if [ ! -x /verif/bin/check ] || [ -n "$(find /verif/sim/cmd/check -newer /verif/bin/check -name '*.go' 2>/dev/null)" ]; then
  go1.26.8 build -o /verif/bin/check.$$ ./cmd/check && mv /verif/bin/check.$$ /verif/bin/check || exit 2
fi
exec /verif/bin/check "$@"
