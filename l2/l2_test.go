//go:debug randseednop=0
//go:debug asynctimerchan=0

// L2: production wiring.  This file is overlaid into /repo's package main at
// build time (go test -overlay, nothing is written into /repo).  It runs the
// real runPool (option handling, store opening, balance manager, the
// production Register calls, server.ServeHTTP with its WebSocket upgrade and
// disconnect callback) on a simulated listener through hook H2, real
// agentRunner instances (LoadAgent / LoadPool / Run) whose WebSocket dial
// lands on the simulated network, and scripted WebSocket peers.
package main

import (
	"context"
	"encoding/json"
	"fmt"
	"net/http"
	"os"
	"os/signal"
	"sort"
	"strings"
	"sync"
	"testing"
	"time"

	"github.com/ethereum/go-ethereum/crypto"
	"github.com/ethereum/go-ethereum/p2p/discv5"
	"github.com/gorilla/websocket"
	"github.com/vipnode/vipnode/v2/jsonrpc2"
	wsgorilla "github.com/vipnode/vipnode/v2/jsonrpc2/ws/gorilla"
	"github.com/vipnode/vipnode/v2/pool"
	"github.com/vipnode/vipnode/v2/pool/store"
	"github.com/vipnode/vipnode/v2/request"
	"verif/sim/kernel"
	"verif/sim/scen"
	"verif/sim/seams"
	"verif/sim/workerlib"
)

func TestWorker(t *testing.T) {
	// os/signal starts its watcher goroutine on first use: do that outside any bubble
	c := make(chan os.Signal, 1)
	signal.Notify(c, os.Interrupt)
	signal.Stop(c)
	workerlib.Main(t)
}

var l2Real = []string{"pool.go runPool (options, store, balance manager, production registrations, payment and status services)", "server.go ServeHTTP (WebSocket upgrade, HTTP RPC, health check, disconnect callback)", "agent.go agentRunner (LoadAgent, LoadPool, Run)", "gorilla WebSocket codec and library", "net/http server", "pool, payment, status, jsonrpc2, agent, request packages", "internal/fakenode"}
var l2Stub = []string{"network (SimConn byte streams with seeded chunking, simulated listener and dialer)", "Ethereum node (the repository's own fakenode:// test node)", "no payment contract"}

func init() {
	scen.Register(&scen.Scenario{Name: "c09_l2_server", Property: "C09", MaxSteps: 60000, Quick: 150, Thorough: 8000,
		Doc:  "production wiring: runPool on a simulated listener; scripted WebSocket hosts connect, reconnect, and leave in every way a socket can end (TCP drop, close frame 1000 / 1001 / 1002 / 1006, garbage), clients ask for peers in between: after the pool has noticed, the count of connected hosts equals the hosts whose latest registered connection is open and departed hosts are never called",
		Real: l2Real, Stub: l2Stub, Run: func(s *kernel.Sim) { runL2(s, "C09") }})
	scen.Register(&scen.Scenario{Name: "c16_l2_surface", Property: "C16", MaxSteps: 60000, Quick: 100, Thorough: 5000,
		Doc:  "production wiring: the method list served by runPool's real registration over WebSocket and over HTTP POST: exactly the documented vipnode_* and pool_* calls, nothing else of the underlying objects; wrong arity answered with invalid params",
		Real: l2Real, Stub: l2Stub, Run: func(s *kernel.Sim) { runL2(s, "C16") }})
	scen.Register(&scen.Scenario{Name: "c15_l2_hostile", Property: "C15", MaxSteps: 60000, Quick: 120, Thorough: 6000,
		Doc:  "production wiring: hostile WebSocket frames (text/binary garbage, truncated JSON, huge ids), hostile HTTP bodies and hostile but well-formed requests against the real server while a real agent keeps its session; the process survives, the health check answers, the agent's keep-alives continue",
		Real: l2Real, Stub: l2Stub, Run: func(s *kernel.Sim) { runL2(s, "C15") }})
	scen.Register(&scen.Scenario{Name: "c20_l2_runner", Property: "C20", MaxSteps: 60000, Quick: 150, Thorough: 8000,
		Doc:  "production wiring: agentRunner.LoadAgent over the --update-interval option space (accepted only inside (5s, 120s)), then LoadPool + Run against the real pool over a simulated WebSocket: one keep-alive per configured interval reaches the pool, Stop ends Run",
		Real: l2Real, Stub: l2Stub, Run: runL2Agent})
}

type l2Pool struct {
	s      *kernel.Sim
	l      *seams.Listener
	p      *pool.VipnodePool
	srv    *http.Server
	ready  chan struct{}
	runErr error
}

// startPool runs the real runPool; hook H2 hands us its handler, pool and store.
func startPool(s *kernel.Sim, maxHosts int, persist bool) *l2Pool {
	lp := &l2Pool{s: s, ready: make(chan struct{})}
	sizes := [][]int{seams.DefaultChunkSizes, {0}, {0, 0, 0, 300, 4096}}[s.Choose("chunking", 3)]
	seams.InstallServeHook(s, func(handler, p, storeDriver interface{}, bind string) error {
		lp.l = seams.NewListener(s, "192.0.2.1:8080")
		lp.l.Sizes = sizes
		// teardown hooks run last-registered first: before the listener closes (and runPool returns and closes
		// the database) the connections are reset and the server's goroutines finish their clean-up
		// (CloseRemote may read the store; badger blocks readers for ever once closed)
		s.OnTeardown(func() {
			for _, c := range lp.l.Conns {
				c.Reset()
			}
			s.Settle()
		})
		lp.p = p.(*pool.VipnodePool)
		lp.srv = &http.Server{Handler: handler.(http.Handler)}
		close(lp.ready)
		return lp.srv.Serve(lp.l)
	})
	var opts Options
	opts.Pool.Bind = "0.0.0.0:8080"
	opts.Pool.Store = "memory"
	if persist {
		opts.Pool.Store = "persist"
		opts.Pool.DataDir = seams.ScratchDir(s, "l2pool")
	}
	opts.Pool.MaxRequestHosts = maxHosts
	opts.Pool.Contract.Price = "100 gwei"
	opts.Pool.Contract.MinBalance = "off"
	s.GoBG("runPool", func() { lp.runErr = runPool(opts) })
	s.OnTeardown(func() {
		if lp.srv != nil {
			lp.srv.Close()
		}
	})
	return lp
}

// wsPeer is a scripted WebSocket peer with a real jsonrpc2.Remote on top of the repository's gorilla codec.
type wsPeer struct {
	name   string
	key    string
	id     string
	host   bool
	mu     sync.Mutex
	conns  []*wsConn
	latest *wsConn // connection of the last completed registration
}

type wsConn struct {
	name   string
	raw    *seams.Conn // the simulated TCP connection under the WebSocket
	codec  jsonrpc2.Codec
	remote *jsonrpc2.Remote
	rp     *pool.RemotePool
	svc    *L2HostSvc
	closed bool
}

type L2HostSvc struct {
	mu    sync.Mutex
	calls int
	conn  string
}

func (h *L2HostSvc) Whitelist(ctx context.Context, nodeID string) error {
	h.mu.Lock()
	h.calls++
	h.mu.Unlock()
	return nil
}

func (h *L2HostSvc) n() int { h.mu.Lock(); defer h.mu.Unlock(); return h.calls }

func detKeyL2(label string) (string, string) {
	k, err := crypto.ToECDSA(crypto.Keccak256([]byte("verif-l2-key:" + label)))
	if err != nil {
		panic(err)
	}
	return label, discv5.PubkeyID(&k.PublicKey).String()
}

// dialWS connects through the repository's own client path (gorilla codec, websocket.DefaultDialer).
func dialWS(s *kernel.Sim, lp *l2Pool, p *wsPeer) (*wsConn, error) {
	old := websocket.DefaultDialer.NetDialContext
	websocket.DefaultDialer.NetDialContext = lp.l.DialContext
	before := len(lp.l.Conns)
	codec, err := wsgorilla.WebSocketDial(s.Ctx, "ws://pool.sim:8080/")
	websocket.DefaultDialer.NetDialContext = old
	if err != nil {
		return nil, err
	}
	p.mu.Lock()
	name := fmt.Sprintf("%s.w%d", p.name, len(p.conns)+1)
	p.mu.Unlock()
	c := &wsConn{name: name, raw: lp.l.Conns[before], codec: codec, svc: &L2HostSvc{conn: name}}
	srv := &jsonrpc2.Server{}
	srv.RegisterMethod("vipnode_whitelist", c.svc, "Whitelist")
	c.remote = &jsonrpc2.Remote{Codec: c.codec, Server: srv, Client: &jsonrpc2.Client{}}
	k, _ := crypto.ToECDSA(crypto.Keccak256([]byte("verif-l2-key:" + p.key)))
	c.rp = pool.Remote(c.remote, k)
	s.GoBG("serve:"+name, func() { c.remote.Serve() })
	p.mu.Lock()
	p.conns = append(p.conns, c)
	p.mu.Unlock()
	return c, nil
}

// wsFrame builds one masked client-to-server WebSocket frame (payload < 126 bytes).
func wsFrame(opcode byte, payload []byte) []byte {
	mask := [4]byte{0x11, 0x22, 0x33, 0x44}
	f := []byte{0x80 | opcode, 0x80 | byte(len(payload)), mask[0], mask[1], mask[2], mask[3]}
	for i, b := range payload {
		f = append(f, b^mask[i%4])
	}
	return f
}

func runL2(s *kernel.Sim, prop string) {
	s.AllowLeak = true
	s.IdleSteps = []time.Duration{time.Millisecond, 50 * time.Millisecond, time.Second, 3 * time.Second}
	lp := startPool(s, []int{0, 0, 3}[s.Choose("maxhosts", 3)], s.Choose("persist", 4) == 0)
	nHosts := 1 + s.Choose("hosts", 3)
	var hosts []*wsPeer
	for i := 0; i < nHosts; i++ {
		k, id := detKeyL2(fmt.Sprintf("host%d", i))
		hosts = append(hosts, &wsPeer{name: fmt.Sprintf("h%d", i), key: k, id: id, host: true})
	}
	ck, cid := detKeyL2("client0")
	client := &wsPeer{name: "c0", key: ck, id: cid}
	done := false
	fail := func(oracle, key, format string, a ...interface{}) { s.Violate(oracle, key, format, a...) }
	ctx := s.Ctx
	s.Go("director", func() {
		defer func() { done = true }()
		select {
		case <-lp.ready:
		case <-ctx.Done():
			return
		}
		connect := func(p *wsPeer) *wsConn {
			c, err := dialWS(s, lp, p)
			if err != nil {
				fail("wiring", "WebSocket dial to the production server fails", "%s: %v", p.name, err)
				return nil
			}
			req := pool.ConnectRequest{VipnodeVersion: "sim"}
			req.NodeInfo.IsFullNode = p.host
			req.NodeInfo.Kind = 1 // geth
			if _, err := c.rp.Connect(ctx, req); err != nil {
				fail("wiring", "a correctly signed connect is refused by the production pool", "%s on %s: %v", p.name, c.name, err)
				return nil
			}
			p.mu.Lock()
			p.latest = c
			p.mu.Unlock()
			return c
		}
		for _, h := range hosts {
			if connect(h) == nil {
				return
			}
		}
		cc := connect(client)
		if cc == nil {
			return
		}
		switch prop {
		case "C16":
			l2Surface(s, lp, cc)
			return
		case "C15":
			l2Hostile(s, lp, cc, hosts)
			return
		}
		// ---------------- C09: socket endings of every kind, peer requests in between
		want := func() int {
			n := 0
			for _, h := range hosts {
				h.mu.Lock()
				if h.latest != nil && !h.latest.closed {
					n++
				}
				h.mu.Unlock()
			}
			return n
		}
		settle := func() {
			// the pool notices a departure when its serve loop has read the close; give it simulated time
			for i := 0; i < 40; i++ {
				s.Sleep("director", 5*time.Millisecond)
			}
		}
		nops := 4 + s.TaskChoose("director", "nops", 10)
		for i := 0; i < nops && !s.Violated(); i++ {
			h := hosts[s.TaskChoose("director", "host", len(hosts))]
			switch op := s.TaskChoose("director", "op", 10); {
			case op <= 2: // reconnect on a new connection; maybe end the old one afterwards
				h.mu.Lock()
				old := h.latest
				h.mu.Unlock()
				if connect(h) == nil {
					return
				}
				s.TaskLog("director", "#%d %s reconnects", i, h.name)
				if old != nil && !old.closed && s.TaskChoose("director", "endold", 2) == 1 {
					endConn(s, old, s.TaskChoose("director", "how", 6))
					s.TaskLog("director", "#%d %s old connection %s ended", i, h.name, old.name)
				}
			case op <= 5: // the host's current connection ends
				h.mu.Lock()
				cur := h.latest
				h.mu.Unlock()
				if cur == nil || cur.closed {
					continue
				}
				how := s.TaskChoose("director", "how", 6)
				endConn(s, cur, how)
				s.TaskLog("director", "#%d %s connection %s ended (%s)", i, h.name, cur.name, endKinds[how])
			default: // a client asks for peers
				settle()
				before := map[*wsConn]int{}
				var departed []*wsConn
				for _, hh := range hosts {
					hh.mu.Lock()
					for _, c := range hh.conns {
						before[c] = c.svc.n()
						if c.closed || c != hh.latest {
							departed = append(departed, c)
						}
					}
					hh.mu.Unlock()
				}
				if got, w := lp.p.NumRemotes(), want(); got != w {
					fail("registry", "count of connected hosts differs from hosts with a live registered connection", "#%d before a peer request: NumRemotes=%d, hosts whose latest registered connection is open: %d", i, got, w)
					return
				}
				resp, err := cc.rp.Peer(ctx, pool.PeerRequest{Num: 5})
				n := 0
				if resp != nil {
					n = len(resp.Peers)
				}
				s.TaskLog("director", "#%d peer request -> %d hosts, %v", i, n, err)
				if err != nil && !strings.Contains(err.Error(), "no available host") && !strings.Contains(err.Error(), "no host nodes") {
					fail("instructed", "a peer request fails on a host that is gone", "#%d: %v (connected hosts by the model: %d)", i, err, want())
					return
				}
				if w := want(); n != w && !(lp.p.MaxRequestHosts > 0 && n == lp.p.MaxRequestHosts && w > n) {
					fail("instructed", "hosts with a live registered connection are not all offered", "#%d: %d hosts returned, %d connected", i, n, w)
					return
				}
			}
		}
		settle()
		if got, w := lp.p.NumRemotes(), want(); got != w {
			fail("registry", "count of connected hosts differs from hosts with a live registered connection", "at the end: NumRemotes=%d, hosts whose latest registered connection is open: %d", got, w)
		}
	})
	res := s.Drive(kernel.DriveOpts{IdleCap: 2 * time.Minute, Until: func() bool { return done }})
	if res != kernel.Done && res != kernel.Stopped {
		s.Violate("liveness", "an operation against the production pool never returns", "ended %s", res)
	}
	closeAll(hosts, client)
}

var endKinds = []string{"TCP drop", "close frame 1000 normal closure", "close frame 1001 going away", "close frame 1002 protocol error", "close frame 1006", "garbage then drop"}

// endConn ends a WebSocket connection from the peer's side in one of the ways a socket can end.
func endConn(s *kernel.Sim, c *wsConn, how int) {
	c.closed = true
	switch how {
	case 0:
		c.raw.Close()
	case 1, 2, 3, 4:
		code := []int{0, websocket.CloseNormalClosure, websocket.CloseGoingAway, websocket.CloseProtocolError, websocket.CloseAbnormalClosure}[how]
		c.raw.Write(wsFrame(8, append([]byte{byte(code >> 8), byte(code)}, []byte("bye")...)))
		c.raw.Close()
	default:
		c.raw.Write(wsFrame(1, []byte("{ this is not json")))
		c.raw.Close()
	}
	s.Fault("connection_end_" + strings.Fields(endKinds[how])[0])
}

func closeAll(hosts []*wsPeer, client *wsPeer) {
	for _, p := range append(hosts, client) {
		p.mu.Lock()
		for _, c := range p.conns {
			c.raw.Close()
		}
		p.mu.Unlock()
	}
}

// the documented RPC surface of the pool binary
var l2Surface_ = []string{"pool_account", "pool_addNode", "pool_status", "pool_withdraw", "vipnode_client", "vipnode_connect", "vipnode_host", "vipnode_peer", "vipnode_ping", "vipnode_update"}

func rpcCode(err error) int {
	if err == nil {
		return 0
	}
	if e, ok := err.(interface{ ErrorCode() int }); ok {
		return e.ErrorCode()
	}
	return -1
}

func l2Surface(s *kernel.Sim, lp *l2Pool, cc *wsConn) {
	cands := []string{"closeRemote", "numRemotes", "verify", "disconnectPeers", "requestHosts", "connect", "update", "peer", "client", "host", "ping", "disconnect", "withdraw", "addNode", "account", "status", "getStatus", "settle",
		"CloseRemote", "NumRemotes", "Connect", "Update", "Ping", "Status", "AddNode", "register", "serveHTTP", "handle"}
	httpSvc := &jsonrpc2.HTTPService{Endpoint: "http://pool.sim:8080/", HTTPClient: http.Client{Transport: &http.Transport{DialContext: lp.l.DialContext, DisableKeepAlives: true}}}
	for _, transport := range []string{"websocket", "http"} {
		var callable []string
		for _, pfx := range []string{"vipnode_", "pool_", ""} {
			for _, c := range cands {
				name := pfx + c
				var out json.RawMessage
				var err error
				if transport == "websocket" {
					err = cc.remote.Call(s.Ctx, &out, name)
				} else {
					err = httpSvc.Call(s.Ctx, &out, name)
				}
				if rpcCode(err) != jsonrpc2.ErrCodeMethodNotFound {
					callable = append(callable, name)
				}
			}
		}
		sort.Strings(callable)
		if strings.Join(callable, ",") != strings.Join(l2Surface_, ",") {
			extra := []string{}
			doc := map[string]bool{}
			for _, m := range l2Surface_ {
				doc[m] = true
			}
			for _, m := range callable {
				if !doc[m] {
					extra = append(extra, m)
				}
			}
			key := "the pool binary does not serve exactly its documented calls"
			if len(extra) > 0 {
				key = "the pool binary serves a call outside its documented surface"
			}
			s.Violate("callable_set", key, "over %s: callable %v, documented %v (extra %v)", transport, callable, l2Surface_, extra)
			return
		}
		// wrong arity on a production method: invalid params
		for _, m := range []string{"vipnode_connect", "vipnode_update", "vipnode_peer", "pool_addNode"} {
			var out json.RawMessage
			var err error
			if transport == "websocket" {
				err = cc.remote.Call(s.Ctx, &out, m, "onlyone")
			} else {
				err = httpSvc.Call(s.Ctx, &out, m, "onlyone")
			}
			if rpcCode(err) != jsonrpc2.ErrCodeInvalidParams {
				s.Violate("invalid_params", "wrong arity on a production method is not answered with invalid-params", "%s over %s with one parameter: %v", m, transport, err)
				return
			}
		}
	}
	s.MarkNontrivial()
}

func l2Hostile(s *kernel.Sim, lp *l2Pool, cc *wsConn, hosts []*wsPeer) {
	ctx := s.Ctx
	d := &websocket.Dialer{NetDialContext: lp.l.DialContext}
	evil, _, err := d.Dial("ws://pool.sim:8080/", nil)
	if err != nil {
		s.Violate("wiring", "WebSocket dial to the production server fails", "%v", err)
		return
	}
	frames := [][]byte{[]byte("{"), []byte("\x00\x01\x02"), []byte(`{"jsonrpc":"2.0","id":1,"method":`), []byte(`[]`), []byte(`null`), []byte(`{"id":[[[[1]]]],"method":"vipnode_ping"}`),
		[]byte(`{"jsonrpc":"2.0","id":1,"method":"vipnode_peer","params":["","",0,{"num":-1}]}`), []byte(`{"jsonrpc":"2.0","id":2,"method":"vipnode_connect","params":["AAAA","` + strings.Repeat("f", 128) + `",1,{}]}`),
		[]byte(`{"jsonrpc":"2.0","id":3}`), []byte(`{"jsonrpc":"2.0","id":4,"result":null}`), []byte(strings.Repeat("[", 20000))}
	n := 1 + s.TaskChoose("director", "nframes", 6)
	for i := 0; i < n; i++ {
		f := frames[s.TaskChoose("director", "frame", len(frames))]
		mt := websocket.TextMessage
		if s.TaskChoose("director", "binary", 2) == 1 {
			mt = websocket.BinaryMessage
		}
		if err := evil.WriteMessage(mt, f); err != nil {
			break
		}
		s.Fault("hostile_frame")
		s.Sleep("director", 10*time.Millisecond)
	}
	// hostile HTTP bodies
	hc := http.Client{Transport: &http.Transport{DialContext: lp.l.DialContext, DisableKeepAlives: true}}
	for _, body := range []string{"", "{", `{"jsonrpc":"2.0","id":1,"method":"vipnode_update","params":[1,2,3,4]}`, strings.Repeat("x", 70000)} {
		req, _ := http.NewRequestWithContext(ctx, http.MethodPost, "http://pool.sim:8080/", strings.NewReader(body))
		if resp, err := hc.Do(req); err == nil {
			resp.Body.Close()
		}
		s.Fault("hostile_http_body")
	}
	// the honest session still works, and the health check answers
	if resp, err := cc.rp.Peer(ctx, pool.PeerRequest{Num: 5}); err != nil || len(resp.Peers) != len(hosts) {
		n := -1
		if resp != nil {
			n = len(resp.Peers)
		}
		s.Violate("others_served", "an honest session is not served after hostile traffic on other connections", "peer request: %d hosts (want %d), err=%v", n, len(hosts), err)
		return
	}
	req, _ := http.NewRequestWithContext(ctx, http.MethodGet, "http://pool.sim:8080/health", nil)
	resp, err := hc.Do(req)
	if err != nil || resp.StatusCode != 200 {
		s.Violate("others_served", "the health check stops answering after hostile traffic", "err=%v", err)
		return
	}
	resp.Body.Close()
	evil.UnderlyingConn().Close()
}

// ------------------------------------------------------------------ C20: agentRunner

func runL2Agent(s *kernel.Sim) {
	s.AllowLeak = true
	s.IdleSteps = []time.Duration{time.Second, 5 * time.Second, 20 * time.Second}
	lp := startPool(s, 0, false)
	// a real host so that the pool is not empty
	hk, hid := detKeyL2("host0")
	host := &wsPeer{name: "h0", key: hk, id: hid, host: true}
	ivs := []string{"1s", "5s", "5001ms", "6s", "30s", "60s", "119s", "119.999s", "120s", "121s", "10m", "0s", "-5s", "abc", "90"}
	iv := ivs[s.Choose("interval", len(ivs))]
	d, perr := time.ParseDuration(iv)
	wantOK := perr == nil && d > 5*time.Second && d < 120*time.Second
	key, _ := crypto.ToECDSA(crypto.Keccak256([]byte("verif-l2-key:agent0")))
	nodeID := discv5.PubkeyID(&key.PublicKey).String()
	done := false
	s.Go("director", func() {
		defer func() { done = true }()
		select {
		case <-lp.ready:
		case <-s.Ctx.Done():
			return
		}
		hc, err := dialWS(s, lp, host)
		if err != nil {
			s.Violate("wiring", "WebSocket dial to the production server fails", "%v", err)
			return
		}
		req := pool.ConnectRequest{VipnodeVersion: "sim"}
		req.NodeInfo.IsFullNode, req.NodeInfo.Kind = true, 1
		if _, err := hc.rp.Connect(s.Ctx, req); err != nil {
			s.Violate("wiring", "a correctly signed connect is refused by the production pool", "%v", err)
			return
		}
		var opts Options
		opts.Agent.RPC = "fakenode://" + nodeID + "@127.0.0.1:30303?fakepeers=2&fakeblock=7"
		opts.Agent.UpdateInterval = iv
		opts.Agent.MinPeers = 0
		opts.Agent.Args.Coordinator = "ws://pool.sim:8080/"
		runner := agentRunner{PrivateKey: key}
		err = runner.LoadAgent(opts)
		s.TaskLog("director", "LoadAgent(--update-interval=%s) -> %v", iv, err)
		if wantOK && err != nil {
			s.Violate("interval_bound", "an update interval inside the accepted range is refused", "--update-interval=%s: %v", iv, err)
			return
		}
		if !wantOK {
			if err == nil {
				s.Violate("interval_bound", "an update interval that is not shorter than the expiry window (or not longer than the minimum) is accepted", "--update-interval=%s accepted (agent interval %s)", iv, runner.Agent.UpdateInterval)
			}
			return
		}
		old := websocket.DefaultDialer.NetDialContext
		websocket.DefaultDialer.NetDialContext = lp.l.DialContext
		err = runner.LoadPool(opts)
		websocket.DefaultDialer.NetDialContext = old
		if err != nil {
			s.Violate("wiring", "agentRunner.LoadPool fails against the production pool", "%v", err)
			return
		}
		runDone := make(chan error, 1)
		s.GoBG("agent.Run", func() { runDone <- runner.Run() })
		// count keep-alives as the pool's store sees them: LastSeen of the agent's node advances once per interval
		seen := func() time.Time {
			n, err := lp.p.Store.GetNode(store.NodeID(nodeID))
			if err != nil {
				return time.Time{}
			}
			return n.LastSeen
		}
		// the byte-level connection may deliver a message in many small pieces, each a scheduling decision:
		// the clock is only advanced while nothing is in flight (the statement is about when keep-alives are
		// sent, a slow network is not the agent's doing)
		s.SetYield("drain", 1)
		drain := func() {
			for i := 0; i < 50000; i++ {
				// (look only after a scheduling decision: then everything else is at rest)
				s.Yield("drain", "director")
				if s.LinksIdle() {
					break
				}
			}
		}
		waitFor := func(cond func() bool) bool {
			for i := 0; i < 400; i++ {
				drain()
				if cond() {
					return true
				}
				s.Sleep("director", 5*time.Millisecond)
			}
			drain()
			return cond()
		}
		if !waitFor(func() bool { return !seen().IsZero() }) {
			var rerr error
			select {
			case rerr = <-runDone:
			default:
			}
			s.Violate("cadence", "the agent did not register with the pool after Run", "node unknown to the pool two seconds after Run (Run returned: %v)", rerr)
			return
		}
		// Start sends one keep-alive right after registering (it carries the node's block number);
		// only when its reply is back is the loop running
		updated := func() bool {
			n, err := lp.p.Store.GetNode(store.NodeID(nodeID))
			return err == nil && n.BlockNumber == 7 && s.LinksIdle()
		}
		if !waitFor(updated) {
			var rerr error
			select {
			case rerr = <-runDone:
			default:
			}
			s.Violate("cadence", "the agent's initial keep-alive never reaches the pool", "Run returned: %v", rerr)
			return
		}
		// the first tick comes one interval after the loop started
		prev := seen()
		s.Sleep("director", d)
		if !waitFor(func() bool { return seen().After(prev) }) {
			s.Violate("cadence", "no keep-alive reaches the pool within one configured interval", "interval %s: last check-in still %s", d, prev)
			return
		}
		// count the check-ins over the next k intervals, looking once per simulated second (a round
		// needs a few scheduler steps to travel, so instants are not compared, only the count)
		k := 2 + s.TaskChoose("director", "k", 5)
		loopStart := time.Now()
		last, count := seen(), 0
		for t := time.Duration(0); t < time.Duration(k)*d; t += time.Second {
			s.Sleep("director", time.Second)
			drain()
			if cur := seen(); cur.After(last) {
				last = cur
				count++
			}
		}
		if count < k-1 || count > k+1 {
			key := "keep-alives do not reach the pool once per configured interval"
			if count > k+1 {
				key = "keep-alives reach the pool more often than once per configured interval"
			}
			s.Violate("cadence", key, "interval %s: %d check-ins in %d intervals", d, count, k)
			return
		}
		// when the keep-alives were *sent*: messages the agent wrote on its pool connection after the loop
		// started (a keep-alive is several hundred bytes; writes at one instant are one message).  A round
		// trip takes up to a second here (the clock moves in one-second steps while bytes are in flight), well
		// below the interval, so consecutive sends must be one interval apart whatever the round trips took.
		if conns := lp.l.Conns; len(conns) > 0 {
			var sends []time.Time
			var cur time.Time
			size := 0
			flush := func() {
				if size >= 400 && cur.After(loopStart) {
					sends = append(sends, cur)
				}
			}
			for _, w := range conns[len(conns)-1].WriteLog() {
				if w.At.Sub(cur) > time.Millisecond {
					flush()
					cur, size = w.At, 0
				}
				size += w.N
			}
			flush()
			for i := 1; i < len(sends); i++ {
				if gap := sends[i].Sub(sends[i-1]); gap < d-100*time.Millisecond || gap > d+100*time.Millisecond {
					s.Violate("cadence", "consecutive keep-alives are not sent one configured interval apart", "interval %s: keep-alive %d sent %s after the previous one (round trips took up to a second)", d, i+1, gap)
					return
				}
			}
			s.ProbeN("c20.l2_keepalive_sends_timed", len(sends))
		}
		runner.Agent.Stop()
		s.Sleep("director", time.Second)
		select {
		case err := <-runDone:
			s.TaskLog("director", "Run returned %v after Stop", err)
		default:
			s.Violate("stop", "agentRunner.Run does not return after Stop", "still running one second after Stop")
			return
		}
		after := seen()
		s.Sleep("director", 2*d+time.Second)
		if cur := seen(); !cur.Equal(after) {
			s.Violate("stop", "keep-alives continue after Stop", "check-in moved from %s to %s after Stop", after, cur)
		}
	})
	res := s.Drive(kernel.DriveOpts{IdleCap: 30 * time.Minute, Until: func() bool { return done }})
	if res != kernel.Done && res != kernel.Stopped {
		s.Violate("liveness", "an operation against the production pool never returns", "ended %s", res)
	}
	closeAll([]*wsPeer{host}, &wsPeer{})
	_ = request.ErrBadSignature
}
