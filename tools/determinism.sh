#!/bin/sh
# tools/determinism.sh [runs] [scenario...] : every scenario, <runs> run indices, executed in fresh processes at
# GOMAXPROCS 1, 4 and 16 (twice at 16); the event-log hashes per run index must be identical.
export GOFLAGS=-mod=mod GOPROXY=off GOSUMDB=off GOTOOLCHAIN=local
N=${1:-40}; shift
BIN=/tmp/det.$$.test
/verif/tools/build_l2.sh $BIN || exit 2   # the L2 binary contains every L1 scenario as well
export GODEBUG=asynctimerchan=0
$BIN -test.run '^TestWorker$' -mode list -out /tmp/det.$$.list.json >/dev/null
SCS="$@"; [ -z "$SCS" ] && SCS=$(python3 -c "import json;print(' '.join(m['Name'] for m in json.load(open('/tmp/det.$$.list.json'))))")
bad=0
for sc in $SCS; do
  i=0
  for p in 1 4 16 16; do
    i=$((i+1))
    GOMAXPROCS=$p $BIN -test.run '^TestWorker$' -test.cpu $p -scenario $sc -from 0 -to $N -logs -out /tmp/det.$$.$i.json >/dev/null 2>&1 &
  done
  wait
  python3 - "$sc" /tmp/det.$$.1.json /tmp/det.$$.2.json /tmp/det.$$.3.json /tmp/det.$$.4.json <<'PY' || bad=1
import json,sys
sc=sys.argv[1]; hs=[json.load(open(f)).get('hashes') or {} for f in sys.argv[2:]]
diff=[k for k in hs[0] if any(h.get(k)!=hs[0][k] for h in hs[1:])]
viol=[k for k in hs[0]]
print(f"{sc}: {len(hs[0])} runs x 4 processes (GOMAXPROCS 1,4,16,16): {'IDENTICAL' if not diff and len(hs[0])>0 else 'DIVERGED at runs '+str(diff[:10])}")
sys.exit(1 if diff or not hs[0] else 0)
PY
done
rm -f /tmp/det.$$.*
exit $bad
