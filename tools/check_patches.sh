#!/bin/sh
# every kept change under seeded/ must still apply to /repo's HEAD (port it by hand when a later fix: commit touched the same lines)
cd /repo || exit 2
bad=0
for d in /verif/seeded/*/; do
  [ -f $d/patch.diff ] || continue
  git apply --check $d/patch.diff 2>/dev/null || { echo "DOES NOT APPLY: $(basename $d)"; bad=1; }
done
exit $bad
