#!/usr/bin/env python3
"""Maintains /verif/known_findings.json.  usage: kf.py fixed|known <property[,property]> <oracle> <key> <commit|-> <what>"""
import json, sys
p='/verif/known_findings.json'
d=json.load(open(p))
status, props, oracle, key, commit, what = sys.argv[1:7]
for prop in props.split(','):
    e={"status":status,"property":prop,"oracle":oracle,"key":key,"what":what}
    if status=='fixed':
        e["commit"]=commit
        e["line"]=f"fixed: property={prop} {commit} {what}"
    d['findings']=[x for x in d['findings'] if not (x['property']==prop and x['oracle']==oracle and x['key']==key)]
    d['findings'].append(e)
json.dump(d,open(p,'w'),indent=1)
