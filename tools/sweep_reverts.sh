#!/bin/sh
# Applies every seeded change (seeded/*/patch.diff) in turn to a scratch worktree of /repo, runs the quick tier of the
# properties named in its props.txt against that worktree (VERIF_REPO), and writes seeded/SWEEP.txt.  /repo is not touched.
cd "$(dirname "$0")/.." || exit 2   # location independent: works from a snapshot of /verif (vp run)
W=/tmp/sweeprepo.$$; git -C /repo worktree add -q --detach $W HEAD || exit 2
FROM=$SWEEP_FROM   # optional (environment): skip seeded changes whose directory name sorts before this string
ONLY=$1   # optional: only seeded changes whose directory name contains this string (result in seeded/SWEEP.part.txt)
final=seeded/SWEEP.txt; [ -n "$ONLY" ] && final=seeded/SWEEP.part.txt
out=$final.new; : > $out
echo "# seeded change | property | exit (1 = violation reported) | number of VIOLATION lines | first violation" >> $out
echo "# /repo at $(git -C /repo log --format=%h -1), /verif at $(git log --format=%h -1), $(date -u +%Y-%m-%dT%H:%MZ)" >> $out
for d in seeded/*/; do
  n=$(basename $d); [ -f $d/patch.diff ] || continue
  case "$n" in *"$ONLY"*) ;; *) continue;; esac
  if [ -n "$FROM" ] && [ "$(printf '%s\n%s\n' "$FROM" "$n" | LC_ALL=C sort | head -1)" != "$FROM" ]; then continue; fi
  props=$(cat $d/props.txt 2>/dev/null); [ -z "$props" ] && continue
  git -C $W apply $(realpath $d/patch.diff) 2>/dev/null || { echo "$n | - | PATCH DOES NOT APPLY" >> $out; continue; }
  for p in $(echo $props | tr , ' '); do
    # SWEEP_PROPS (environment, optional): only these properties, e.g. "C07 C02"
    if [ -n "$SWEEP_PROPS" ]; then case " $SWEEP_PROPS " in *" $p "*) ;; *) continue;; esac; fi
    VERIF_REPO=$W VERIF_EVIDENCE_SUFFIX=.sweep ./check.sh $p quick > /tmp/sweep_$$_$p.log 2>&1; rc=$?
    v=$(grep -c "^VIOLATION" /tmp/sweep_$$_$p.log)
    first=$(grep -m1 -B1 "^VIOLATION" /tmp/sweep_$$_$p.log | head -1 | cut -c1-170)
    echo "$n | $p | exit=$rc | violations=$v | $first" >> $out
  done
  git -C $W checkout -- . ; git -C $W clean -fdq
done
git -C /repo worktree remove --force $W; rm -f /tmp/sweep_$$_*.log
echo DONE >> $out; mv $out $final
