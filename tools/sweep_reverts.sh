#!/bin/sh
# Applies every seeded change in turn and runs the checks named in its props.txt (or all given as $1); writes seeded/SWEEP.txt
cd /verif
out=seeded/SWEEP.txt; : > $out
for d in seeded/*/; do
  n=$(basename $d); [ -f $d/patch.diff ] || continue
  props=$(cat $d/props.txt 2>/dev/null); [ -z "$props" ] && continue
  git -C /repo apply $(realpath $d/patch.diff) 2>/dev/null || { echo "$n: PATCH DOES NOT APPLY" >> $out; continue; }
  for p in $(echo $props | tr , ' '); do
    ./check.sh $p quick > /tmp/sweep_$p.log 2>&1; rc=$?
    v=$(grep -c "^VIOLATION" /tmp/sweep_$p.log)
    first=$(grep -m1 -B1 "^VIOLATION" /tmp/sweep_$p.log | head -1 | cut -c1-160)
    echo "$n | $p | exit=$rc | violations=$v | $first" >> $out
  done
  git -C /repo checkout -- . 
done
git -C /repo status --short | head -2 >> $out
echo DONE >> $out
