#!/bin/sh
# Runs every claimed check (quick) on the current tree and validates the evidence it writes.
cd /verif
git -C /repo diff --quiet || { echo "/repo has uncommitted changes"; exit 3; }
props=$(python3 -c "import json;print(' '.join(c['property_id'] for c in json.load(open('MANIFEST.json'))['checks']))")
rc=0
for p in $props; do
  ./check.sh $p ${1:-quick} > /tmp/refresh_$p.log 2>&1; e=$?
  line=$(grep -E "^check " /tmp/refresh_$p.log | cut -c1-150)
  echo "$p exit=$e $line"
  [ $e -ne 0 ] && { rc=1; grep -E "VIOLATION|HARNESS|KNOWN" /tmp/refresh_$p.log | head -5; }
done
python3-vt - <<'PY' || rc=1
import json,jsonschema,glob,sys
s=json.load(open('/root/.vp/EVIDENCE.schema.json')); bad=0
m=json.load(open('/verif/MANIFEST.json'))
for c in m['checks']:
    f=c['evidence_file']
    try:
        e=json.load(open(f)); jsonschema.validate(e,s)
        assert e['level']==c['level_claimed']['category'], (e['level'], c['level_claimed']['category'])
        assert e['coverage']['evaluations']>0
    except Exception as ex:
        print('EVIDENCE PROBLEM', f, str(ex)[:200]); bad=1
jsonschema.validate(m,json.load(open('/root/.vp/MANIFEST.schema.json')))
print('evidence+manifest', 'OK' if not bad else 'BAD'); sys.exit(bad)
PY
exit $rc
