#!/bin/sh
# tools/intake_seed.sh <ID> <short-name> : confirm a sub-agent's seeded change in a scratch worktree, then keep it under seeded/
ID=$1; NAME=$2; SRC=/tmp/wt/$ID.out; DST=/verif/seeded/$ID-$NAME
# usage: intake_seed.sh <ID> <short-name> <package dir of the demo, relative to the repo root>
export GOFLAGS=-mod=mod GOPROXY=off GOSUMDB=off
[ -f $SRC/patch.diff ] || { echo "no patch"; exit 1; }
W=/tmp/wt/confirm-$ID; rm -rf $W; git -C /repo worktree add -q --detach $W HEAD || exit 1
pkgdir=${3:-.}
echo "demo package dir: $pkgdir"
res="{}"
cd $W
cp $SRC/demo_test.go $W/$pkgdir/zz_demo_seed_test.go 2>/dev/null || { echo "cannot place demo in $pkgdir"; }
go test -vet=off -count=1 $TAGS ./$pkgdir/ > /tmp/intake_clean.log 2>&1; clean=$?
git apply $SRC/patch.diff || { echo "patch does not apply"; }
go build ./... > /tmp/intake_build.log 2>&1; build=$?
go test -vet=off -count=1 $TAGS ./$pkgdir/ > /tmp/intake_demo.log 2>&1; demo=$?
rm -f $W/$pkgdir/zz_demo_seed_test.go
go test -vet=off -count=1 ./... > /tmp/intake_suite.log 2>&1; suite=$?
cd /verif; git -C /repo worktree remove --force $W
echo "demo without change: exit=$clean (want 0); build with change: $build (want 0); demo with change: exit=$demo (want !=0); existing suite with change: exit=$suite (want 0)"
if [ $clean -eq 0 ] && [ $build -eq 0 ] && [ $demo -ne 0 ] && [ $suite -eq 0 ]; then
  mkdir -p $DST; cp $SRC/patch.diff $SRC/demo_test.go $SRC/notes.md $DST/
  echo "CONFIRMED -> $DST"
else
  echo "NOT CONFIRMED"; tail -5 /tmp/intake_clean.log /tmp/intake_demo.log /tmp/intake_suite.log | cut -c1-200
fi
