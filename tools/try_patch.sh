#!/bin/sh
# tools/try_patch.sh <patch.diff> <property>[,<property>...] [tier]  — apply a breaking change to /repo, run the checks, undo it.
P=$(realpath "$1"); PROPS="$2"; TIER="${3:-quick}"
git -C /repo apply "$P" || { echo "patch does not apply"; exit 3; }
for p in $(echo "$PROPS" | tr , ' '); do
  /verif/check.sh "$p" "$TIER" > /tmp/try_$p.log 2>&1; rc=$?
  echo "== $p exit=$rc"; grep -E "^VIOLATION|^KNOWN-FINDING|^check |HARNESS" /tmp/try_$p.log | head -8
done
git -C /repo checkout -- . ; git -C /repo status --short | head -3
