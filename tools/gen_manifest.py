#!/usr/bin/env python3
"""Regenerates /verif/MANIFEST.json from the table below (kept valid at every commit)."""
import json, subprocess

TECH = "deterministic simulation with fault injection: seeded scheduler over a testing/synctest bubble, "

CHECKS = {
 "C14": dict(level="exploration",
   text="Seeded search over delivery orders, handler stalls, reply-before-wait, nested call-backs and cancellations on two real jsonrpc2.Remote ends joined by a simulated connection; oracles: own reply by unique token, handled exactly once, context service identity, prompt cancellation, bounded liveness after faults stop. In half of the runs callers can also be preempted right before every atomic operation of the repository (yield points inserted at build time by sim/cmd/instrument through -overlay; on this tree: request-id allocation). In a third of the runs messages queued behind one another arrive in one burst (several frames in one segment: the reading loop finds the next message without a scheduling decision in between; at most one reply per burst, handlers park on entry). Sampling, not proof.",
   note="Connection is a message-level FIFO stub (no loss/reorder inside a connection, as TCP/WebSocket); a caller parked between write and wait is not cancelled (Go's select would choose at random).",
   technique=TECH+"message-delivery/handler-release/cancellation schedules, token oracle + bounded liveness", design="4 C14"),
}

CHECKS.update({
 "C12": dict(level="exploration",
   text="Reference-model simulation of the storage component: generated operation histories over small id/account alphabets applied at identical simulated instants to the memory driver, the badger driver (real on-disk database) and an executable model of the documented contract; every result, error identity and the final observable state are compared; the fake clock crosses the 120 s and 15 min windows.",
   note="The reference model is my reading of pool/store/store.go's documentation and the property statement; where the contract is silent and the drivers disagree the disagreement is reported (the model then follows the persistent driver). Negative limits are excluded (statement: limit >= 0).",
   technique=TECH+"sequential operation histories on a simulated clock, differential against an executable reference model", design="4 C12"),
 "C05": dict(level="exploration",
   text="Nonce histories per identity (equal, decreasing, boundary, ahead-of-clock, replays of every accepted nonce) with clock advances to 40 min and close/reopen of the badger store, against a never-expiring high-water-mark model; concurrent duplicate submissions interleaved inside the badger transaction (real ErrConflict) with an at-most-once count and a porcupine linearizability check; the RPC-level path is exercised by the world scenarios.",
   note="c05_window_edge lets the clock pass the end of the freshness window while a replay is inside the store (yield point at the start of the nonce transaction); c13_migrate replays a nonce accepted before a format upgrade. Marks are modelled as never expiring; the exact boundary instant now-15min follows the code (<=). Inside the memory driver's critical section no interleaving is possible under the cooperative scheduler.",
   technique=TECH+"nonce histories with clock jumps and store restarts vs a reference model; racing duplicates at in-transaction yield points checked with porcupine", design="4 C05"),
 "C11": dict(level="exploration",
   text="Keep-alive histories of a node and its peers with gaps at and around the 120 s expiry window, changing reports (unknown ids, duplicates, itself), reconnects, on both drivers against the reference model, plus the direct invariant that a peer that keeps checking in and keeps being reported is never evicted.",
   note="The instant exactly one window old is a don't-care (both drivers must still agree with each other).",
   technique=TECH+"keep-alive histories on a simulated clock vs a reference model of peer tracking", design="4 C11"),
 "C13": dict(level="fault_enumeration",
   text="For every generated history, a crash image of the database directory is taken at every in-transaction yield point of every operation and after every operation, reopened (sometimes with the exact production options) and compared with the model before/after the interrupted operation; a concurrent reader checks isolation while the writer is parked; close+reopen after every operation; old on-disk formats 0/1/2 are synthesised and opened through the driver with a crash image inside the migration (also between the transactions of a migration that needs several: databases with thousands of saved nonces on 1 MB tables); c13_migrate_big opens format-0/1 databases with 20 000 to 120 000 saved nonces under the production options. Nonces saved before the upgrade must be refused after it, also in every crash image.",
   note="Process kill is modelled as a copy of the database directory while every goroutine is parked (what the page cache holds, as after SIGKILL), one image in three additionally with the last value-log write torn (cut strictly inside the bytes the interrupted commit appended; the reopen is first tried in a child process); lost or reordered sectors behind an acknowledged write and ENOSPC inside badger are out of reach (badger owns its file I/O). Old-format databases are generated with up to 260 identities with 128-digit ids and up to 7 000 (c13_migrate) / 120 000 (c13_migrate_big) saved nonces. Crash points are enumerated per history; histories are sampled.",
   technique=TECH+"crash-image enumeration at in-transaction yield points (hook H1) + restart, refinement against a reference model", design="4 C13"),
})

W = "World = real VipnodePool + payPerInterval + PaymentService + store driver + request signing + jsonrpc2 on both ends of simulated connections, scripted agents. "
CHECKS.update({
 "C01": dict(level="exploration",
   text=W+"Seeded sequential histories on both drivers; after every operation that returns, the credit sum (Stats().TotalCredit and, independently, the per-account getters) must be unchanged, except after a successful withdrawal where it must drop by exactly the settled credit. Concurrent interleavings are covered by the C10 scenarios; c01_ledger_faults repeats the histories with one injected storage error per run (any store operation of the pool fails once, as on a full disk) and demands the same conservation after the failed operation.",
   note="Connections, agents, chain deposit table and settlement handler are stubs. The sum is read from the inner store at quiescent points. One isolated storage error per run is survived (c01_ledger_faults); c01_ledger_outage (two to four store calls in a row fail) shows a genuine defect that is listed in known_findings.json rather than repaired (it needs an atomic transfer operation in the store interface): the check prints KNOWN-FINDING lines for it and exits 0.",
   technique=TECH+"pool operation histories with clock jumps; conservation invariant after every step", design="4 C01"),
 "C02": dict(level="exploration",
   text=W+"Keep-alive histories with elapsed times from 0 to days and prices up to 2^200; each accepted client keep-alive must move exactly floor(elapsed*price/interval) to every tracked active peer and the sum from the client (model mirror of every balance, compared after every operation); hosts, zero elapsed time and empty peer sets move nothing. c02_stall stalls the handler between check-in stamp and charge; c02_billing_faults injects one storage error per run: a keep-alive that returns an error other than the low-balance cut-off moves no balance.",
   note="The instant a handler reads the clock is only known to lie inside the operation: the charge may correspond to any instant within 200 microseconds after the stamped check-in (no handler stalls are injected in this scenario).",
   technique=TECH+"keep-alive histories on a simulated clock vs an arithmetic reference ledger", design="4 C02"),
 "C03": dict(level="exploration",
   text=W+"Minimum unset/negative/zero/positive, balances placed around the threshold by deposit and credit, clients billed across it, hosts answering the disconnect fan-out with ack/error/silence: refusal at connect and cut-off at a billing keep-alive exactly when deposit+credit (after the charge) < minimum, the error carries that balance, every connected host peering with the client receives vipnode_disconnect, hosts are never refused.",
   note="A keep-alive 'bills' when it charges a non-zero amount; the reported balance is parsed from the error text that crosses the RPC boundary.",
   technique=TECH+"threshold-crossing histories with host faults in the disconnect fan-out", design="4 C03"),
 "C04": dict(level="exploration",
   text=W+"Inside live sessions an adversary sends, to every signed endpoint, a fresh correctly signed request with exactly one component altered (method, identity, nonce, one parameter leaf, one signature byte, other key, empty/garbage/truncated signature); each must be refused with a verification error, and every unaltered fresh request must pass verification. Identity alterations include the same bytes spelled differently (hex case, 0X prefix).",
   note="Alterations are applied to decoded values; the old-format vipnode_update signature (peers, block_number) that the code accepts for backward compatibility is not exercised with altered peers_info (see DESIGN section 5).",
   technique=TECH+"single-component request alterations injected into live sessions", design="4 C04"),
 "C06": dict(level="exploration",
   text=W+"Refused requests of every kind (bad signature, wrong key, malformed signature, replayed or too-old nonce) between legitimate operations: the digest of the whole pool state (nodes, peers, links, balances, connected hosts, instructions received by hosts, settlements) and the count of mutating store operations must not change, and the owner's next request with a smaller fresh nonce must be accepted. c06_refused_conc sends the owner's own withdrawal or keep-alive while one to three requests naming the same identity are still being refused (stale nonce, flipped byte, other key), interleaved at every store boundary: the owner's request must be carried out as if they had never been sent.",
   note="Digest read from the inner store at quiescent points; time-derived statistics excluded.",
   technique=TECH+"refused requests injected at arbitrary points of valid sessions; state-digest equality + follow-up nonce", design="4 C06"),
 "C07": dict(level="exploration",
   text=W+"Credit accrues through real billing, deposits come from the simulated chain; valid, repeated and below-minimum withdrawals, fee none/constant, settlement failing at chosen attempts: paid amount = balance - fee exactly once, nothing left to withdraw afterwards (so nothing is paid twice), nothing paid or changed on refusal or failure. Racing withdrawals are covered by c07_withdraw_race (in a third of the runs every racer names the wallet in another spelling of the same address); c07_withdraw_faults injects one storage error (nonce save, balance read, credit debit) into a withdrawal: a withdrawal that returns an error has paid nothing and changed no balance. c07_contract_seq replaces the stubs by the production wiring: PaymentService over payment.ContractPayment with the real vipnode pool contract on go-ethereum's simulated chain (blocks mined when the scenario decides, event subscription that can lose its connection, requests under several spellings of the wallet address, a wallet that exits on chain by itself, a new subscription that takes time to exist, a deposit that is looked at while pending and never mined, answers to balance queries and contract events that are held back for a few operations; the node dropping its pending transactions; the acknowledgement of a submitted settlement getting lost; one history in two ends with both wallets asking for their money once more): whatever left the contract is covered by what the withdrawing wallets deposited and earned, a wallet that has just been paid out has deposit 0 and credit 0 on the pool's books when asked straight afterwards, and once nothing is in flight any more the pool's view of every deposit equals the contract's.",
   note="Settlement is the SimSettle stub (sets the on-chain deposit to newBalance on success).",
   technique=TECH+"accrual/withdrawal histories with settlement faults; races at store and settlement yield points", design="4 C07"),
 "C08": dict(level="exploration",
   text=W+"Populations of hosts/clients of several kinds, fresh/stale, connected/closed/reconnected, already peered or not; requested counts -2..supply+3, MaxRequestHosts 0/1/2/5, vipnode_peer and legacy vipnode_client; per-host whitelist policy ack/error/silent/slow with acknowledgement orders chosen by the scheduler: every returned host is eligible and acknowledged the whitelist call issued for this request before the reply was written (event sequence numbers), counts bounded, error only without hosts, exact count when everyone is eligible and acks, reply written within 5 s of simulated time after the pool read the request.",
   note="Eligibility at the activity-window boundary (and within 6 s of it) is a don't-care.",
   technique=TECH+"whitelist fan-out under host faults and delivery orders; eligibility/ack/count oracles + bounded liveness", design="4 C08"),
 "C09": dict(level="exploration",
   text=W+"1-4 hosts; connect, reconnect on a new connection, close of old or new connections in every order, peer requests in between: NumRemotes equals the hosts whose latest registered connection is open, connections closed before a request started are never written to, a reconnected host is instructed on its new connection only. Closes racing an in-flight request are covered by c09_registry_race; the production wiring by c09_l2_server.",
   note="In the L1 scenarios the pool end of every connection does what server.go does; c09_l2_server runs the real runPool + server.ServeHTTP (hook H2) over simulated byte streams with scripted WebSocket hosts that end their sockets by TCP drop, close frames 1000/1001/1002/1006 or garbage.",
   technique=TECH+"connection lifecycle event orders vs a registry reference model", design="4 C09"),
 "C19": dict(level="exploration",
   text=W+"Hosts register (connect and legacy host) with 18 kinds of node-URI override from 11 kinds of connection source address (IPv4, IPv6 with and without zone, DNS, empty, unspecified); what is stored and what a client is handed is parsed with the agent-side parser and net.SplitHostPort and must carry the authenticated id and the supplied/connection host and port; undeterminable addresses must be refused.",
   note="Low simulation weight: the schedule is inert, the simulator contributes the transport-supplied source address and the three-party round trip.",
   technique=TECH+"registration inputs x connection source addresses through the real connect path, round-trip parse oracle", design="4 C19"),
 "C10": dict(level="exploration",
   text=W+"Bursts of 2-8 overlapping update / peer / addNode calls and duplicate copies of one signed request from agents sharing hosts and a wallet (including two keep-alives of one client), interleaved at every store-operation boundary and at the in-transaction yield points of the badger driver (real optimistic conflicts). At quiescence: every balance holder's credit moved by what some one-at-a-time order of the acknowledged requests moves it (interval arithmetic over the charge), the credit sum is conserved, a nonce is honoured at most once, every Balance/Node handed out by a store (and every balance in a reply) is unchanged by later operations. A tenth of the runs is repeated in a -race build in which the scheduler's own hand-offs are hidden from ThreadSanitizer, so accesses the code itself leaves unordered are reported even though they were run one after the other. Two focused variants: c10_same_client (2-4 keep-alives of one client in flight at once) and c10_first_touch (persistent driver, nodes without a balance record whose first credit races their own keep-alive or re-registration, i.e. retried transactions), plus c10_cold_start (-race build only: the first keep-alives a freshly built balance manager bills arrive at once, with nothing of the harness between the requests but the yield points) and c10_slow_writer (persistent driver, generated plan: one write to a hot record loses 1-300 commit attempts in a row to a faster writer and must still be applied and acknowledged). Schedules: uniform, priority (PCT-style, change-point rate varied per run) and injected stalls (one goroutine frozen where it stands for 5-60 decisions).",
   note="Serialisability is checked on resulting balances and nonce decisions by interval arithmetic rather than by a general linearizability search; peer sets are kept fresh so that no eviction depends on the order. Inside one store call of the memory driver no interleaving is possible under the cooperative scheduler: removed locking there is the race build's job. Socket transport concurrency (gorilla) is covered by C17's race scenario, not here.",
   technique=TECH+"concurrent request bursts interleaved at store-op and in-transaction yield points; serial-order interval oracle, snapshot-immutability registry, race detector with masked hand-offs", design="4 C10"),
 "C18": dict(level="exploration",
   text="Real agent.Agent against a recording node and a scripted pool over 1-6 keep-alive rounds driven by the real ticker on the simulated clock and by forced updates: churning local peer sets, active/invalid lists as ids or enode URIs with/without addresses, loopback/unspecified hosts and differing ports, strict mode on/off, targets 0-6, pool errors at update or at the peer request, an Ethereum-node RPC error on the k-th un-trust or disconnect call of a round (the attempt counts), light/full, geth/parity. After every round the node calls must equal the reference reconciliation: un-trust + disconnect exactly the declared-invalid peers (plus, strict, local peers not listed under the same host), one peer request for exactly the shortfall of the node's own kind, ConnectPeer for every returned host, nothing at all after a failed keep-alive.",
   note="Node and pool are stubs (ethnode.EthNode / pool.Pool interfaces); geth/parity RPC adapters are not run. Peers whose local or pool-side host is loopback/unspecified/empty are a don't-care in strict mode.",
   technique=TECH+"multi-round agent/node/pool histories with injected pool errors vs a reference reconciliation", design="4 C18"),
 "C20": dict(level="exploration",
   text="Real agent.Agent lifecycle on the simulated clock: sequences of Start, Start-again, Stop, Wait (in separate tasks), forced updates (also one that a slow pool is still answering when the next tick fires; the scripted pool refuses overlapping keep-alives of one node as the real one does), pool failure at connect or at the k-th keep-alive, a pool that never answers, intervals 1 s to 10 min: Start while running returns ErrAlreadyStarted and sends nothing, exactly one keep-alive per interval while running and none when stopped, Stop ends the loop and Wait returns, a failed Start leaves nothing running, the agent can be started again after Stop and after the loop died.",
   note="c20_l2_runner runs the production agentRunner (LoadAgent over the --update-interval option space: accepted only inside (5 s, 120 s); LoadPool + Run against the real runPool over a simulated WebSocket; keep-alives counted per interval as the pool's store sees them; Stop ends Run). Stop is only called while the model says the loop runs (Stop blocks by design otherwise).",
   technique=TECH+"lifecycle call sequences on a simulated clock; keep-alive cadence counted per simulated interval", design="4 C20"),
 "C17": dict(level="exploration",
   text="1-40 messages (requests, replies, tiny, > 64 KiB, unicode, nested) per writer are written through each codec to a simulated byte stream whose bytes the scheduler delivers in seeded chunks (one byte at a time, splits inside a message, several messages per read): stream codec (IOCodec), gorilla and gobwas WebSocket codecs through a real net/http server + real dialers, HTTP codec through real http.Transport/http.Server (requests and replies from a few bytes to 70 KB - replies beyond the server's 2 KB buffer travel chunked, without a Content-Length -, with and without a MaxContentLength on the caller). The reader must obtain the same messages once, intact, in per-writer order. For the shipped codec (gorilla) 1-4 concurrent writers per side are used and a tenth of the runs is repeated in a -race build with masked scheduler hand-offs, so that unsynchronised writers are reported.",
   note="The connection is a reliable ordered byte stream (no loss/duplication, as TCP). The simulator never parks a goroutine inside Write (codecs hold their write lock there), so byte interleaving of concurrent writers can only show as a race report or as gorilla's own concurrent-write panic. Step budget exhaustion with byte-at-a-time chunking is counted as inconclusive, not as loss.",
   technique=TECH+"byte-stream chunking schedules over real codecs, HTTP server and dialers; written-vs-read sequence oracle; race detector for concurrent writers", design="4 C17"),
 "C15": dict(level="exploration",
   text=W+"A hostile peer, concurrent with honest sessions on other connections, sends hostile but structurally valid JSON-RPC requests to every registered endpoint of the pool, payment and status services (missing/null/object/scalar params, wrong arity and types, duplicate and non-scalar ids, signatures of length 0..71 in several encodings, odd ids, URIs and peer descriptions, negative, huge and overflowing counts - also correctly signed by its own key), raw garbage and truncated JSON, and - registered as a host - hostile replies to whitelist calls; a second scenario runs the real agent.Agent against a hostile pool (every hostile reply that carries the call's id must end the call at once, not at its deadline). A panic anywhere kills the worker process and is reported as the violation with the run's seed; every well-formed request must get exactly one reply with its id and a result or an error; the hostile connection must still answer vipnode_ping after hostile requests; honest sessions must complete.",
   note="Hostility is injected at message level on the simulated codec; c15_l2_hostile adds hostile WebSocket frames and HTTP bodies against the real server.go / runPool while an honest session and the health check must keep working. When the hostile peer also sent hostile replies the pool may drop that connection (the statement exempts floods of replies). \"result\":null next to an error is counted as an error reply.",
   technique=TECH+"hostile request/reply catalogue injected into live multi-connection sessions; process-survival, one-reply and liveness oracles", design="4 C15"),
 "C16": dict(level="exploration",
   text="Servers built from a family of receiver types x prefixes x allow-lists, and the production registrations (vipnode_ with its allow-list, pool_ payment and status): every registered name, case variants, unexported/helper/unregistrable methods, other prefixes; for each callable method every arity 0..n+2, per-position JSON type substitutions (including strings that look like a number or a boolean, and numbers out of range), omitted/null/non-array params, directly and through a real jsonrpc2.Remote over a simulated connection: the callable set is exactly {prefix + lower-first(name)} within the allow-list and, for the pool, exactly the documented surface; unknown names get -32601, wrong arity or type gets -32602 and the method does not run (invocation counters; on production receivers no store operation and an unchanged state digest).",
   note="Low simulation weight: schedule, clock and faults are inert; the simulator contributes the real registration code and the transport path. c16_l2_surface probes the method list served by the real runPool registration (hook H2) over WebSocket and over HTTP POST; a separately started executable on real sockets is not used. JSON null for a scalar parameter is a don't-care.",
   technique=TECH+"name/arity/type probe matrices against real registration and dispatch code", design="4 C16"),
})

PENDING = {}  # property -> reason it is not claimed at this commit

def main():
    props = [json.loads(l) for l in open('/verif/properties.jsonl')]
    checks = []
    na = []
    for p in props:
        pid = p['id']
        c = CHECKS.get(pid)
        if not c:
            na.append({"property_id": pid, "reason": PENDING.get(pid, "check not built yet at this commit (work in progress; see DESIGN.md section 9 for the build order)")})
            continue
        checks.append({
            "property_id": pid,
            "quick_cmd": f"./check.sh {pid} quick",
            "thorough_cmd": f"./check.sh {pid} thorough",
            "evidence_file": f"/verif/evidence/{pid}.json",
            "replay_cmd_template": f"./check.sh {pid} --replay {{path}}",
            "engine": "sim",
            "level_claimed": {"category": c['level'], "text": c['text'], "design_ref": "DESIGN.md section " + c['design']},
            "level_note": c['note'],
            "technique": c['technique'],
        })
    hooks = subprocess.run(['git','-C','/repo','log','--format=%H %s'],capture_output=True,text=True).stdout.splitlines()
    hook_commits = [l.split()[0] for l in hooks if l.split(' ',1)[1].startswith('verif hook')]
    m = {
        "version": 1,
        "setup_cmd": "cd /verif/sim && GOFLAGS=-mod=mod GOPROXY=off GOSUMDB=off GOTOOLCHAIN=local go1.26.8 build -o /verif/bin/check ./cmd/check && GOFLAGS=-mod=mod GOPROXY=off GOSUMDB=off GOTOOLCHAIN=local go1.26.8 test -c -tags verif -o /dev/null ./worker",
        "hooks": {
            "guard": "verif",
            "enable": "go build tag: checks compile /repo with `-tags verif` (go1.26.8 test -c -tags verif ./worker in /verif/sim, whose go.mod replaces the vipnode module by /repo)",
            "baseline_off_cmd": "cd /repo && GOFLAGS=-mod=mod GOPROXY=off GOSUMDB=off go test -vet=off -count=1 -timeout 25m ./...",
            "source_commits": hook_commits,
            "add_only": True,
        },
        "engines": [{"name": "sim", "path": "/verif/sim", "serves_properties": sorted(CHECKS), "kind_free_text": "deterministic simulation with fault injection (Go, testing/synctest bubbles, own seeded scheduler, simulated codec/conn/store-decorator/eth-node/settlement seams, trace minimiser)"}],
        "checks": checks,
        "not_applicable": na,
        "notes": "Every check: exit 0 held / only KNOWN-FINDING lines, exit 1 + VIOLATION line, exit 2 harness or build trouble. VERIF_SEED, VERIF_TIER, VERIF_BUDGET_S, VERIF_SCALE, VERIF_WORKERS are honoured. Known findings: /verif/known_findings.json.",
    }
    json.dump(m, open('/verif/MANIFEST.json','w'), indent=1)
    print("checks:", [c['property_id'] for c in checks], "not claimed:", len(na))

main()
