#!/usr/bin/env python3
"""Regenerates /verif/MANIFEST.json from the table below (kept valid at every commit)."""
import json, subprocess

TECH = "deterministic simulation with fault injection: seeded scheduler over a testing/synctest bubble, "

CHECKS = {
 "C14": dict(level="exploration",
   text="Seeded search over delivery orders, handler stalls, reply-before-wait, nested call-backs and cancellations on two real jsonrpc2.Remote ends joined by a simulated connection; oracles: own reply by unique token, handled exactly once, context service identity, prompt cancellation, bounded liveness after faults stop. Sampling, not proof.",
   note="Connection is a message-level FIFO stub (no loss/reorder inside a connection, as TCP/WebSocket); a caller parked between write and wait is not cancelled (Go's select would choose at random).",
   technique=TECH+"message-delivery/handler-release/cancellation schedules, token oracle + bounded liveness", design="4 C14"),
}

PENDING = {}  # property -> reason it is not claimed at this commit

def main():
    props = [json.loads(l) for l in open('/verif/properties.jsonl')]
    checks = []
    na = []
    for p in props:
        pid = p['id']
        c = CHECKS.get(pid)
        if not c:
            na.append({"property_id": pid, "reason": PENDING.get(pid, "check not built yet at this commit (work in progress; see DESIGN.md section 9 for the build order)")})
            continue
        checks.append({
            "property_id": pid,
            "quick_cmd": f"./check.sh {pid} quick",
            "thorough_cmd": f"./check.sh {pid} thorough",
            "evidence_file": f"/verif/evidence/{pid}.json",
            "replay_cmd_template": f"./check.sh {pid} --replay {{path}}",
            "engine": "sim",
            "level_claimed": {"category": c['level'], "text": c['text'], "design_ref": "DESIGN.md section " + c['design']},
            "level_note": c['note'],
            "technique": c['technique'],
        })
    hooks = subprocess.run(['git','-C','/repo','log','--format=%H %s'],capture_output=True,text=True).stdout.splitlines()
    hook_commits = [l.split()[0] for l in hooks if l.split(' ',1)[1].startswith('verif hook')]
    m = {
        "version": 1,
        "setup_cmd": "cd /verif/sim && GOFLAGS=-mod=mod GOPROXY=off GOSUMDB=off GOTOOLCHAIN=local go1.26.8 build -o /verif/bin/check ./cmd/check && GOFLAGS=-mod=mod GOPROXY=off GOSUMDB=off GOTOOLCHAIN=local go1.26.8 test -c -tags verif -o /dev/null ./worker",
        "hooks": {
            "guard": "verif",
            "enable": "go build tag: checks compile /repo with `-tags verif` (go1.26.8 test -c -tags verif ./worker in /verif/sim, whose go.mod replaces the vipnode module by /repo)",
            "baseline_off_cmd": "cd /repo && GOFLAGS=-mod=mod GOPROXY=off GOSUMDB=off go test -vet=off -count=1 -timeout 25m ./...",
            "source_commits": hook_commits,
            "add_only": True,
        },
        "engines": [{"name": "sim", "path": "/verif/sim", "serves_properties": sorted(CHECKS), "kind_free_text": "deterministic simulation with fault injection (Go, testing/synctest bubbles, own seeded scheduler, simulated codec/conn/store-decorator/eth-node/settlement seams, trace minimiser)"}],
        "checks": checks,
        "not_applicable": na,
        "notes": "Every check: exit 0 held / only KNOWN-FINDING lines, exit 1 + VIOLATION line, exit 2 harness or build trouble. VERIF_SEED, VERIF_TIER, VERIF_BUDGET_S, VERIF_SCALE, VERIF_WORKERS are honoured. Known findings: /verif/known_findings.json.",
    }
    json.dump(m, open('/verif/MANIFEST.json','w'), indent=1)
    print("checks:", [c['property_id'] for c in checks], "not claimed:", len(na))

main()
