#!/usr/bin/env python3
"""Regenerates /verif/MANIFEST.json from the table below (kept valid at every commit)."""
import json, subprocess

TECH = "deterministic simulation with fault injection: seeded scheduler over a testing/synctest bubble, "

CHECKS = {
 "C14": dict(level="exploration",
   text="Seeded search over delivery orders, handler stalls, reply-before-wait, nested call-backs and cancellations on two real jsonrpc2.Remote ends joined by a simulated connection; oracles: own reply by unique token, handled exactly once, context service identity, prompt cancellation, bounded liveness after faults stop. Sampling, not proof.",
   note="Connection is a message-level FIFO stub (no loss/reorder inside a connection, as TCP/WebSocket); a caller parked between write and wait is not cancelled (Go's select would choose at random).",
   technique=TECH+"message-delivery/handler-release/cancellation schedules, token oracle + bounded liveness", design="4 C14"),
}

CHECKS.update({
 "C12": dict(level="exploration",
   text="Reference-model simulation of the storage component: generated operation histories over small id/account alphabets applied at identical simulated instants to the memory driver, the badger driver (real on-disk database) and an executable model of the documented contract; every result, error identity and the final observable state are compared; the fake clock crosses the 120 s and 15 min windows.",
   note="The reference model is my reading of pool/store/store.go's documentation and the property statement; where the contract is silent and the drivers disagree the disagreement is reported (the model then follows the persistent driver). Negative limits are excluded (statement: limit >= 0).",
   technique=TECH+"sequential operation histories on a simulated clock, differential against an executable reference model", design="4 C12"),
 "C05": dict(level="exploration",
   text="Nonce histories per identity (equal, decreasing, boundary, ahead-of-clock, replays of every accepted nonce) with clock advances to 40 min and close/reopen of the badger store, against a never-expiring high-water-mark model; concurrent duplicate submissions interleaved inside the badger transaction (real ErrConflict) with an at-most-once count and a porcupine linearizability check; the RPC-level path is exercised by the world scenarios.",
   note="Marks are modelled as never expiring; the exact boundary instant now-15min follows the code (<=). Inside the memory driver's critical section no interleaving is possible under the cooperative scheduler.",
   technique=TECH+"nonce histories with clock jumps and store restarts vs a reference model; racing duplicates at in-transaction yield points checked with porcupine", design="4 C05"),
 "C11": dict(level="exploration",
   text="Keep-alive histories of a node and its peers with gaps at and around the 120 s expiry window, changing reports (unknown ids, duplicates, itself), reconnects, on both drivers against the reference model, plus the direct invariant that a peer that keeps checking in and keeps being reported is never evicted.",
   note="The instant exactly one window old is a don't-care (both drivers must still agree with each other).",
   technique=TECH+"keep-alive histories on a simulated clock vs a reference model of peer tracking", design="4 C11"),
 "C13": dict(level="fault_enumeration",
   text="For every generated history, a crash image of the database directory is taken at every in-transaction yield point of every operation and after every operation, reopened (sometimes with the exact production options) and compared with the model before/after the interrupted operation; a concurrent reader checks isolation while the writer is parked; close+reopen after every operation; old on-disk formats 0/1/2 are synthesised and opened through the driver with a crash image inside the migration.",
   note="Process kill is modelled as a copy of the database directory while every goroutine is parked (what the page cache holds, as after SIGKILL); disk-level torn/lost writes and ENOSPC are out of reach (badger owns its file I/O). Crash points are enumerated per history; histories are sampled.",
   technique=TECH+"crash-image enumeration at in-transaction yield points (hook H1) + restart, refinement against a reference model", design="4 C13"),
})

PENDING = {}  # property -> reason it is not claimed at this commit

def main():
    props = [json.loads(l) for l in open('/verif/properties.jsonl')]
    checks = []
    na = []
    for p in props:
        pid = p['id']
        c = CHECKS.get(pid)
        if not c:
            na.append({"property_id": pid, "reason": PENDING.get(pid, "check not built yet at this commit (work in progress; see DESIGN.md section 9 for the build order)")})
            continue
        checks.append({
            "property_id": pid,
            "quick_cmd": f"./check.sh {pid} quick",
            "thorough_cmd": f"./check.sh {pid} thorough",
            "evidence_file": f"/verif/evidence/{pid}.json",
            "replay_cmd_template": f"./check.sh {pid} --replay {{path}}",
            "engine": "sim",
            "level_claimed": {"category": c['level'], "text": c['text'], "design_ref": "DESIGN.md section " + c['design']},
            "level_note": c['note'],
            "technique": c['technique'],
        })
    hooks = subprocess.run(['git','-C','/repo','log','--format=%H %s'],capture_output=True,text=True).stdout.splitlines()
    hook_commits = [l.split()[0] for l in hooks if l.split(' ',1)[1].startswith('verif hook')]
    m = {
        "version": 1,
        "setup_cmd": "cd /verif/sim && GOFLAGS=-mod=mod GOPROXY=off GOSUMDB=off GOTOOLCHAIN=local go1.26.8 build -o /verif/bin/check ./cmd/check && GOFLAGS=-mod=mod GOPROXY=off GOSUMDB=off GOTOOLCHAIN=local go1.26.8 test -c -tags verif -o /dev/null ./worker",
        "hooks": {
            "guard": "verif",
            "enable": "go build tag: checks compile /repo with `-tags verif` (go1.26.8 test -c -tags verif ./worker in /verif/sim, whose go.mod replaces the vipnode module by /repo)",
            "baseline_off_cmd": "cd /repo && GOFLAGS=-mod=mod GOPROXY=off GOSUMDB=off go test -vet=off -count=1 -timeout 25m ./...",
            "source_commits": hook_commits,
            "add_only": True,
        },
        "engines": [{"name": "sim", "path": "/verif/sim", "serves_properties": sorted(CHECKS), "kind_free_text": "deterministic simulation with fault injection (Go, testing/synctest bubbles, own seeded scheduler, simulated codec/conn/store-decorator/eth-node/settlement seams, trace minimiser)"}],
        "checks": checks,
        "not_applicable": na,
        "notes": "Every check: exit 0 held / only KNOWN-FINDING lines, exit 1 + VIOLATION line, exit 2 harness or build trouble. VERIF_SEED, VERIF_TIER, VERIF_BUDGET_S, VERIF_SCALE, VERIF_WORKERS are honoured. Known findings: /verif/known_findings.json.",
    }
    json.dump(m, open('/verif/MANIFEST.json','w'), indent=1)
    print("checks:", [c['property_id'] for c in checks], "not claimed:", len(na))

main()
