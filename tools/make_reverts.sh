#!/bin/sh
# regenerate seeded/revert-<name>/patch.diff for every "fix:" commit in /repo against the current HEAD
cd /repo || exit 1
git log --format='%h %s' | grep ' fix: ' | while read c rest; do
  name=$(echo "$rest" | sed 's/^fix: //; s/[^A-Za-z0-9]/-/g' | cut -c1-48 | sed 's/-*$//')
  d=/verif/seeded/revert-$c-$name
  if git revert --no-commit $c >/dev/null 2>&1; then
    mkdir -p $d; git diff HEAD > $d/patch.diff; echo "$c $rest" > $d/subject.txt
  else echo "cannot revert $c cleanly"; fi
  git revert --abort >/dev/null 2>&1; git reset -q --hard HEAD
done
git status --short | head -3
