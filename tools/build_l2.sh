#!/bin/sh
# tools/build_l2.sh <out-binary> [-race] : builds the L2 worker (this repo's package main + the overlaid l2 test file)
OUT=$1; RACE=$2
export GOFLAGS=-mod=mod GOPROXY=off GOSUMDB=off GOTOOLCHAIN=local
D=$(mktemp -d /verif/bin/l2build.XXXXXX) || exit 2
cp /repo/go.mod $D/l2.mod
cat >> $D/l2.mod <<M

require verif/sim v0.0.0

replace verif/sim => /verif/sim

replace github.com/vipnode/vipnode/v2 v2.0.0 => /repo
M
cat /repo/go.sum /verif/sim/go.sum | sort -u > $D/l2.sum
printf '{"Replace":{"/repo/zz_verif_l2_test.go":"/verif/l2/l2_test.go"}}' > $D/overlay.json
(cd /repo && go1.26.8 test -c -tags verif $RACE -overlay $D/overlay.json -modfile $D/l2.mod -o $OUT . ) ; rc=$?
rm -rf $D
exit $rc
