#!/bin/sh
# tools/build_l2.sh <out-binary> [-race] : builds the L2 worker (the repository's package main + the overlaid l2 test file)
OUT=$1; RACE=$2
V=${VERIF_DIR:-/verif}; R=${VERIF_REPO:-/repo}
export GOFLAGS=-mod=mod GOPROXY=off GOSUMDB=off GOTOOLCHAIN=local
mkdir -p $V/bin
D=$(mktemp -d $V/bin/l2build.XXXXXX) || exit 2
cp $R/go.mod $D/l2.mod
cat >> $D/l2.mod <<M

require verif/sim v0.0.0

replace verif/sim => $V/sim

replace github.com/vipnode/vipnode/v2 v2.0.0 => $R
M
cat $R/go.sum $V/sim/go.sum | sort -u > $D/l2.sum
# yield points before atomic operations (hook H3, generated) + the overlaid test file
(cd $V/sim && go1.26.8 run ./cmd/instrument $R $D >/dev/null) || { rm -rf $D; exit 2; }
python3 - $D/overlay.json "$R/zz_verif_l2_test.go" "$V/l2/l2_test.go" <<'PY' || { rm -rf $D; exit 2; }
import json,sys
o=json.load(open(sys.argv[1])); o.setdefault("Replace",{})[sys.argv[2]]=sys.argv[3]
json.dump(o,open(sys.argv[1],"w"))
PY
(cd $R && go1.26.8 test -c -tags verif $RACE -overlay $D/overlay.json -modfile $D/l2.mod -o $OUT . ) ; rc=$?
rm -rf $D
exit $rc
