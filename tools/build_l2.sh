#!/bin/sh
# tools/build_l2.sh <out-binary> [-race] : builds the L2 worker (the repository's package main + the overlaid l2 test file)
OUT=$1; RACE=$2
V=${VERIF_DIR:-/verif}; R=${VERIF_REPO:-/repo}
export GOFLAGS=-mod=mod GOPROXY=off GOSUMDB=off GOTOOLCHAIN=local
mkdir -p $V/bin
D=$(mktemp -d $V/bin/l2build.XXXXXX) || exit 2
cp $R/go.mod $D/l2.mod
cat >> $D/l2.mod <<M

require verif/sim v0.0.0

replace verif/sim => $V/sim

replace github.com/vipnode/vipnode/v2 v2.0.0 => $R
M
cat $R/go.sum $V/sim/go.sum | sort -u > $D/l2.sum
printf '{"Replace":{"%s/zz_verif_l2_test.go":"%s/l2/l2_test.go"}}' $R $V > $D/overlay.json
(cd $R && go1.26.8 test -c -tags verif $RACE -overlay $D/overlay.json -modfile $D/l2.mod -o $OUT . ) ; rc=$?
rm -rf $D
exit $rc
